// Quantifier-free instantiation of the UF axioms of DESIGN 3.1 / 3.3 over the cone of a query.
package main

import (
	"path/filepath"
	"strings"
)

func (ts *TermStore) lookupUF(name string, args ...*Term) *Term {
	var sb strings.Builder
	sb.WriteString("uf:" + name)
	_ = sb
	// cheap scan: only used for idempotence instances
	for _, t := range ts.all {
		if t.op == "uf:"+name && len(t.args) == len(args) {
			same := true
			for i := range args {
				if t.args[i] != args[i] {
					same = false
				}
			}
			if same {
				return t
			}
		}
	}
	return nil
}

func (ex *Exec) axioms(cone []*Term) []*Term {
	var out []*Term
	var fmts, joins []*Term
	// program literals this query mentions (plus the empty string)
	coneLits := []string{""}
	for _, t := range cone {
		if t.IsConst() && t.sort == SInt {
			if l, ok := Lits.byCode[t.ival.Int64()]; ok && l != "" {
				coneLits = append(coneLits, l)
			}
		}
	}
	for _, t := range cone {
		switch t.op {
		case "uf:trim":
			x := t.args[0]
			out = append(out, ILe(IntC(0), t), Implies(Eq(x, IntC(0)), Eq(t, IntC(0))))
			if x.op != "uf:trim" {
				out = append(out, Eq(UF("trim", SInt, t), t))
			}
			// a free text that happens to equal a program literal trims like that literal
			if x.op == "var" || strings.HasPrefix(x.op, "uf:") {
				for _, l := range coneLits {
					out = append(out, Implies(Eq(x, IntC(Lits.Code(l))), Eq(t, IntC(Lits.Code(strings.TrimSpace(l))))))
				}
			}
		case "uf:strlen":
			// bound: atom-mode strings are at most 1 MiB long (stated bound; the log format itself caps lines at 10 MiB)
			out = append(out, BVCmp("bvsle", BVC(0, 64), t), BVCmp("bvsle", t, BVC(1<<20, 64)), Eq(Eq(t, BVC(0, 64)), Eq(t.args[0], IntC(0))))
			// a text equal to a program literal is as long as that literal
			for _, l := range coneLits {
				out = append(out, Implies(Eq(t.args[0], IntC(Lits.Code(l))), Eq(t, BVC(int64(len(l)), 64))))
			}
		case "uf:timefmt":
			out = append(out, ILt(IntC(0), t))
			fmts = append(fmts, t)
		case "uf:parseval":
			out = append(out, ILe(IntC(0), t))
		case "uf:cat":
			out = append(out, ILe(IntC(0), t), Eq(Eq(t, IntC(0)), And(Eq(t.args[0], IntC(0)), Eq(t.args[1], IntC(0)))))
		case "uf:legacytitle":
			// the derived title is never blank ("(untitled)" or a trimmed non-empty line)
			out = append(out, ILt(IntC(0), t), Neq(UF("trim", SInt, t), IntC(0)))
		case "uf:pathjoin":
			joins = append(joins, t)
		case "uf:cleanpath":
			// Clean never returns "" and is idempotent; on program literals it is computed
			out = append(out, ILt(IntC(0), t))
			if t.args[0].op != "uf:cleanpath" {
				out = append(out, Eq(UF("cleanpath", SInt, t), t))
			}
			for _, l := range append([]string(nil), Lits.sorted...) {
				out = append(out, Implies(Eq(t.args[0], IntC(Lits.Code(l))), Eq(t, IntC(Lits.Code(filepath.Clean(l))))))
			}
		case "uf:isabs":
			for _, l := range append([]string(nil), Lits.sorted...) {
				out = append(out, Implies(Eq(t.args[0], IntC(Lits.Code(l))), BoolC(filepath.IsAbs(l)).eqTerm(t)))
			}
		case "uf:hasprefix", "uf:hassuffix", "uf:contains", "uf:containsany":
			if len(t.args) == 2 && t.args[1].IsConst() {
				pat, ok := Lits.byCode[t.args[1].ival.Int64()]
				if ok {
					f := map[string]func(string, string) bool{"uf:hasprefix": strings.HasPrefix, "uf:hassuffix": strings.HasSuffix, "uf:contains": strings.Contains, "uf:containsany": strings.ContainsAny}[t.op]
					for _, l := range coneLits {
						out = append(out, Implies(Eq(t.args[0], IntC(Lits.Code(l))), BoolC(f(l, pat)).eqTerm(t)))
					}
				}
			}
		case "uf:legacybody":
			out = append(out, ILe(IntC(0), t))
		case "uf:replaceall":
			out = append(out, ILe(IntC(0), t))
			if len(t.args) == 3 && t.args[1].IsConst() && t.args[2].IsConst() {
				o, ok1 := Lits.byCode[t.args[1].ival.Int64()]
				n, ok2 := Lits.byCode[t.args[2].ival.Int64()]
				if ok1 && ok2 {
					// on program literals (incl. "") the library's own answer
					for _, l := range append([]string(nil), Lits.sorted...) {
						out = append(out, Implies(Eq(t.args[0], IntC(Lits.Code(l))), Eq(t, IntC(Lits.Code(strings.ReplaceAll(l, o, n))))))
					}
				}
			}
		case "uf:toupper", "uf:tolower":
			out = append(out, ILe(IntC(0), t))
			// on the literals this query mentions (and on ""), the library's own answer
			f := strings.ToUpper
			if t.op == "uf:tolower" {
				f = strings.ToLower
			}
			for _, l := range coneLits {
				out = append(out, Implies(Eq(t.args[0], IntC(Lits.Code(l))), Eq(t, IntC(Lits.Code(f(l))))))
			}
		case "uf:quote", "uf:trimprefix", "uf:trimsuffix", "uf:boxstr":
			out = append(out, ILe(IntC(0), t))
		}
	}
	// distinct (directory, name) pairs are distinct paths (names hold no separator)
	for i := range joins {
		for j := i + 1; j < len(joins); j++ {
			out = append(out, Implies(Eq(joins[i], joins[j]), And(Eq(joins[i].args[0], joins[j].args[0]), Eq(joins[i].args[1], joins[j].args[1]))))
		}
	}
	for i := range fmts {
		for j := i + 1; j < len(fmts); j++ {
			out = append(out, Implies(Eq(fmts[i], fmts[j]), Eq(fmts[i].args[0], fmts[j].args[0])))
		}
	}
	return out
}

// watchTerms: UF applications whose model values the concretiser needs.
func (ex *Exec) watchTerms(cone []*Term) []*Term {
	var out []*Term
	for _, t := range cone {
		if strings.HasPrefix(t.op, "uf:") {
			out = append(out, t)
		}
	}
	return out
}

func (b *Term) eqTerm(t *Term) *Term {
	if b == True {
		return t
	}
	return Not(t)
}
