// Directory-tree model for the store-discovery units (C18): a fixed skeleton /zzroot/x/y with the
// process working directory /zzroot/x; whether each of the three directories holds a `.ergo`
// directory is symbolic. Paths handed to os.Stat are program literals (the harness enumerates
// spellings), so filepath.Join/Dir/Base/Clean/IsAbs/Abs fold to literals and only existence is
// symbolic.
package main

import (
	"fmt"
	"path/filepath"
	"strings"
)

const (
	treeRoot = "/zzroot"
	treeCwd  = "/zzroot/x"
)

var treeOn bool
var treeErgo [3]*Term

func treeAbs(p string) string {
	if !filepath.IsAbs(p) {
		p = filepath.Join(treeCwd, p)
	}
	return filepath.Clean(p)
}

func treeDepth(abs string) int {
	switch abs {
	case treeRoot:
		return 0
	case treeRoot + "/x":
		return 1
	case treeRoot + "/x/y":
		return 2
	}
	return -1
}

// overLits: applies f to every literal a string value may be (an ite tree over literal codes);
// ok=false when some leaf is not a literal.
func overLits(v Value, f func(l string) *Term) (res *Term, ok bool) {
	sv, isS := v.(StrV)
	if !isS {
		return nil, false
	}
	if l, isL := litOf(v); isL {
		return f(l), true
	}
	ok = true
	memo := map[*Term]*Term{}
	var walk func(t *Term) *Term
	walk = func(t *Term) *Term {
		if r, hit := memo[t]; hit {
			return r
		}
		var r *Term
		switch {
		case t.op == "ite":
			r = Ite(t.args[0], walk(t.args[1]), walk(t.args[2]))
		case t.IsConst():
			if l, isL := Lits.byCode[t.ival.Int64()]; isL {
				r = f(l)
			} else {
				ok = false
				r = t
			}
		default:
			ok = false
			r = t
		}
		memo[t] = r
		return r
	}
	res = walk(sv.T)
	return res, ok
}

func litFold1(name string, f func(string) string) modelFn {
	return func(ex *Exec, c *callCtx) Value {
		if a, ok := litOf(c.args[0]); ok {
			return StrLit(f(a))
		}
		if treeOn {
			if r, ok := overLits(c.args[0], func(l string) *Term { return StrLit(f(l)).T }); ok {
				return StrV{T: r}
			}
		}
		if ex.world != nil && ex.world.active {
			if m := ex.world.models["path/filepath."+name]; m != nil {
				return m(ex, c)
			}
		}
		if a, ok := c.args[0].(StrV); ok {
			return StrV{T: UF("path"+strings.ToLower(name), SInt, a.T)}
		}
		panic(unsupported("filepath.%s in byte mode", name))
	}
}

func installTreeModels() {
	modelTable["path/filepath.Dir"] = litFold1("Dir", filepath.Dir)
	modelTable["path/filepath.Base"] = litFold1("Base", filepath.Base)
	modelTable[ergoPath+".zzTreeRoot"] = func(ex *Exec, c *callCtx) Value {
		treeOn = true
		for i := range treeErgo {
			treeErgo[i] = ex.nondet(fmt.Sprintf("tree.ergo.%d", i), "bool").(BoolV).T
		}
		modelTable["os.Stat"] = mTreeStat
		modelTable["os.Getwd"] = func(ex *Exec, c *callCtx) Value {
			return TupleV{E: []Value{StrLit(treeCwd), NilRef()}}
		}
		modelTable["path/filepath.Abs"] = func(ex *Exec, c *callCtx) Value {
			a, ok := litOf(c.args[0])
			if !ok {
				panic(unsupported("filepath.Abs of a non-literal path in the tree model"))
			}
			return TupleV{E: []Value{StrLit(treeAbs(a)), NilRef()}}
		}
		return StrLit(treeRoot)
	}
	modelTable[ergoPath+".zzTreeHasErgo"] = func(ex *Exec, c *callCtx) Value {
		dt := c.args[0].(IntV).T
		if dt.IsConst() {
			return BoolV{treeErgo[int(dt.SVal())]}
		}
		return BoolV{Ite(Eq(dt, BVC(0, 64)), treeErgo[0], Ite(Eq(dt, BVC(1, 64)), treeErgo[1], And(Eq(dt, BVC(2, 64)), treeErgo[2])))}
	}
	// zzSamePath(got, want): every literal the result may be names the same directory as `want`
	modelTable[ergoPath+".zzSamePath"] = func(ex *Exec, c *callCtx) Value {
		want, ok := litOf(c.args[1])
		if !ok {
			panic(unsupported("zzSamePath: expected path must be a literal"))
		}
		var walk func(t *Term) *Term
		walk = func(t *Term) *Term {
			if t.op == "ite" {
				return Ite(t.args[0], walk(t.args[1]), walk(t.args[2]))
			}
			if t.IsConst() {
				if l, ok := Lits.byCode[t.ival.Int64()]; ok {
					return BoolC(treeAbs(l) == treeAbs(want))
				}
			}
			panic(unsupported("zzSamePath: result is not a choice of literals (%s)", t.Pretty(3)))
		}
		return BoolV{walk(c.args[0].(StrV).T)}
	}
}

func mTreeStat(ex *Exec, c *callCtx) Value {
	exists, ok := overLits(c.args[0], func(p string) *Term {
		abs := treeAbs(p)
		if filepath.Base(abs) == ".ergo" {
			if d := treeDepth(filepath.Dir(abs)); d >= 0 {
				return treeErgo[d]
			}
			return False
		}
		return BoolC(treeDepth(abs) >= 0 || abs == "/")
	})
	if !ok {
		panic(unsupported("os.Stat of a non-literal path in the tree model: %s", c.args[0].(StrV).T.Pretty(4)))
	}
	o := ex.newObject("statinfo", nil, StructV{F: []Value{BoolV{True}}})
	info := Ref1(IfaceT{Typ: sentinelType("zzStatInfo"), V: Ref1(AddrT{Obj: o})})
	notExist := ex.globalObj(ex.prog.ImportedPackage("os").Var("ErrNotExist")).val
	return TupleV{E: []Value{MergeV(exists, info, NilRef()), MergeV(exists, NilRef(), notExist)}}
}

// ---- display-width abstraction (C12 renderer totality, C19 row layout) ----
// A string is abstracted to its display width: visibleLen(s) is the term visLenT(s), built
// structurally (width of a concatenation = sum, of a literal = computed, of Repeat(" ", n) = n)
// and uninterpreted (0..2^20) for free atoms.

var widthMode bool

func litWidth(s string) int64 {
	// strip ANSI colour sequences (ESC ... 'm'), then count runes (ergo's literals hold no wide runes)
	n := int64(0)
	in := false
	for _, r := range s {
		if r == 0x1b {
			in = true
			continue
		}
		if in {
			if r == 'm' {
				in = false
			}
			continue
		}
		n++
	}
	return n
}

var visMemo = map[*Term]*Term{}

func (ex *Exec) visLenT(t *Term) *Term {
	if r, ok := visMemo[t]; ok {
		return r
	}
	var r *Term
	switch {
	case t.IsConst():
		if l, ok := Lits.byCode[t.ival.Int64()]; ok {
			r = BVC(litWidth(l), 64)
		}
	case t.op == "ite":
		r = Ite(t.args[0], ex.visLenT(t.args[1]), ex.visLenT(t.args[2]))
	case t.op == "uf:cat":
		r = BVBin("bvadd", ex.visLenT(t.args[0]), ex.visLenT(t.args[1]))
	case t.op == "uf:repeat":
		n := t.args[1]
		r = BVBin("bvmul", Ite(BVCmp("bvslt", n, BVC(0, 64)), BVC(0, 64), n), ex.visLenT(t.args[0]))
		if w := ex.visLenT(t.args[0]); w.IsConst() && w.SVal() == 1 {
			r = Ite(BVCmp("bvslt", n, BVC(0, 64)), BVC(0, 64), n)
		}
	}
	if r == nil {
		r = UF("vislen", SBV(64), t)
		ex.assume(And(BVCmp("bvsle", BVC(0, 64), r), BVCmp("bvsle", r, BVC(1<<20, 64)), Implies(Eq(t, IntC(0)), Eq(r, BVC(0, 64)))))
	}
	visMemo[t] = r
	return r
}

func installWidthModels() {
	modelTable[ergoPath+".zzWidthMode"] = func(ex *Exec, c *callCtx) Value { widthMode = true; return nil }
	modelTable[ergoPath+".zzWidth"] = func(ex *Exec, c *callCtx) Value {
		switch s := c.args[0].(type) {
		case StrV:
			return IntV{ex.visLenT(s.T), true}
		case BStrV:
			return IntV{s.Len, true}
		}
		panic(unsupported("zzWidth of %T", c.args[0]))
	}
	modelTable[ergoPath+".zzStrip"] = func(ex *Exec, c *callCtx) Value {
		if l, ok := litOf(c.args[0]); ok {
			var sb strings.Builder
			in := false
			for _, r := range l {
				if r == 0x1b {
					in = true
					continue
				}
				if in {
					if r == 'm' {
						in = false
					}
					continue
				}
				sb.WriteRune(r)
			}
			return StrLit(sb.String())
		}
		return StrV{T: UF("stripansi", SInt, c.args[0].(StrV).T)}
	}
	modelTable[ergoPath+".zzTruncUF"] = func(ex *Exec, c *callCtx) Value {
		return StrV{T: UF("truncw", SInt, c.args[0].(StrV).T, c.args[1].(IntV).T)}
	}
}
