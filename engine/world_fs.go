// L0 file model (DESIGN 3.4): the log as a sequence of line objects, files as names bound to
// contents, effects indexed in program order so that a crash point is one symbolic integer.
// Switched on by the harness intrinsic zzFSInit; ergo's own storage functions (readEvents,
// appendEvents, writeEventsFile, replaceEventsAtomically, appendEventsAtomically, getEventsPath,
// loadGraph, syncDir) then run for real on top of these system-call models.
package main

import (
	"fmt"
	"go/types"
	"strings"
)

type LineCell struct {
	Pres     *Term
	Blank    *Term
	Parses   *Term
	Complete *Term
	Ev       Value // Event struct value
}

// LineT: the bytes of one line as handed out by the scanner.
type LineT struct {
	Cell *LineCell
	id   int
}

type FileObj struct {
	name    string
	Exists  *Term
	Cells   []*LineCell
	Garbled *Term // overwritten in place (no O_APPEND / O_TRUNC): an unparsable complete last line may follow
}

type fileHandle struct {
	f        *FileObj
	appendMd bool
	inPlace  bool
	write    bool
}

type scannerState struct {
	h       *fileHandle
	pos     int
	curCell *LineCell
}

type FS struct {
	on       bool
	files    map[*Term]*FileObj
	handles  map[*Object]*fileHandle
	scanners map[*Object]*scannerState
	writers  map[*Object]*fileHandle
	die      *Term // effects with index >= die do not happen
	torn     *Term // the write with index == die lands a strict prefix
	tornAll  *Term // ... everything but the newline
	nEff     int
	nFileFd  int
	proc     int
	initCells []*LineCell
	effT     []effRec
	reads    []effRec
	effects  []map[string]interface{}
	parseErrs []parseErrRec
}

type effRec struct {
	g      *Term
	inLock *Term
	idx    int
	f      *FileObj
	kind   string
}

type parseErrRec struct {
	obj  *Object
	path *Term
	line *Term
}

func (w *World) fsInit() {
	w.fs = &FS{on: true, files: map[*Term]*FileObj{}, handles: map[*Object]*fileHandle{}, scanners: map[*Object]*scannerState{}, writers: map[*Object]*fileHandle{}}
	for name, m := range map[string]modelFn{
		"os.Stat":                    w.fsStat,
		"os.Open":                    w.fsOpen,
		"os.OpenFile":                w.fsOpenFile,
		"os.Rename":                  w.fsRename,
		"os.Remove": func(ex *Exec, c *callCtx) Value {
			f := w.file(c.args[0])
			existed := f.Exists
			alive, _ := w.effect(c, "remove", f)
			f.Exists = And(f.Exists, Not(alive))
			for _, cl := range f.Cells {
				cl.Pres = And(cl.Pres, Not(alive))
			}
			f.Garbled = And(f.Garbled, Not(alive))
			return MergeV(existed, NilRef(), w.notExistErr())
		},
		"os.WriteFile":               w.fsWriteFile,
		"(*os.File).Close":           func(ex *Exec, c *callCtx) Value { return NilRef() },
		"(*os.File).Sync":            func(ex *Exec, c *callCtx) Value { return NilRef() },
		"(*os.File).Stat":            w.fsFileStat,
		"(*os.File).Fd": func(ex *Exec, c *callCtx) Value {
			// a descriptor owned by an *os.File: the runtime closes it when the File is collected
			w.fs.nFileFd++
			return IntV{BVC(int64(500+w.fs.nFileFd), 64), false}
		},
		ergoPath + ".zzLockFDOwned": func(ex *Exec, c *callCtx) Value {
			ok := True
			for _, l := range w.lockEvs {
				if l.Kind == "flock" && l.Unowned {
					ok = And(ok, Not(l.G))
				}
			}
			return BoolV{ok}
		},
		"(*os.File).ReadAt":          w.fsReadAt,
		"(*os.File).Write":           w.fsFileWrite,
		"bufio.NewScanner":           w.fsNewScanner,
		"(*bufio.Scanner).Buffer":    func(ex *Exec, c *callCtx) Value { return nil },
		"(*bufio.Scanner).Scan":      w.fsScan,
		"(*bufio.Scanner).Bytes":     w.fsBytes,
		"(*bufio.Scanner).Err":       func(ex *Exec, c *callCtx) Value { return NilRef() },
		"bufio.NewWriter":            w.fsNewWriter,
		"(*bufio.Writer).Write":      w.fsWriterWrite,
		"(*bufio.Writer).Flush":      func(ex *Exec, c *callCtx) Value { return NilRef() },
		ergoPath + ".writeAll":       w.fsWriteAll,
		ergoPath + ".formatEventsParseError": w.fsParseError,
		ergoPath + ".zzProcBegin":    w.fsProcBegin,
		ergoPath + ".zzProcAlive":    w.fsProcAlive,
		ergoPath + ".zzParseErrInfo": w.fsParseErrInfo,
		ergoPath + ".zzLogShape":     w.fsLogShape,
		ergoPath + ".zzFirstBadLine": w.fsFirstBadLine,
		ergoPath + ".zzStoreEffects": w.fsStoreEffects,
		ergoPath + ".zzHistoryPreserved": w.fsHistoryPreserved,
		ergoPath + ".zzLockDiscipline": w.fsLockDiscipline,
		ergoPath + ".zzNoTornWrites": func(ex *Exec, c *callCtx) Value {
			if w.fs.die != nil {
				ex.assume(And(Not(w.fs.torn), Not(w.fs.tornAll)))
			}
			return nil
		},
	} {
		w.models[name] = m
	}
	// the ergo-level storage stubs are off: the real functions run
	for _, n := range []string{"loadGraph", "readEvents", "replayEvents", "appendEvents", "appendEventsAtomically", "replaceEventsAtomically", "getEventsPath", "ensureFileExists"} {
		delete(w.models, ergoPath+"."+n)
	}
	w.fs.die = nil
}

func (w *World) file(path Value) *FileObj {
	t := path.(StrV).T
	f, ok := w.fs.files[t]
	if !ok {
		f = &FileObj{name: t.Pretty(3), Exists: False, Garbled: False}
		w.fs.files[t] = f
	}
	return f
}

// effect allocates the next effect index; returns the guard under which it happens entirely.
func (w *World) effect(c *callCtx, kind string, f *FileObj) (alive *Term, idx int) {
	fs := w.fs
	idx = fs.nEff
	fs.nEff++
	name := ""
	if f != nil {
		name = f.name
	}
	fs.effects = append(fs.effects, map[string]interface{}{"i": idx, "kind": kind, "file": name, "proc": fs.proc})
	w.ex.scenarioMeta["effects"] = fs.effects
	fs.effT = append(fs.effT, effRec{g: c.guard, inLock: w.lockHeld, idx: idx, f: f, kind: kind})
	// which effects lie on the path the solver picks (the native replay needs to know)
	ev := w.ex.nondet(fmt.Sprintf("world.eff!%d", idx), "bool").(BoolV).T
	w.ex.assume(Eq(ev, c.guard))
	if fs.die == nil {
		return c.guard, idx
	}
	return And(c.guard, ILt(IntC(int64(idx)), fs.die)), idx
}

func (w *World) notExistErr() Value {
	p := w.ex.prog.ImportedPackage("os")
	g := p.Var("ErrNotExist")
	o := w.ex.globalObj(g)
	return o.val
}

func (w *World) fsStat(ex *Exec, c *callCtx) Value {
	f := w.file(c.args[0])
	info := Ref1(IfaceT{Typ: fileInfoType(), V: Ref1(AddrT{Obj: w.infoObj(f)})})
	return TupleV{E: []Value{MergeV(f.Exists, info, NilRef()), MergeV(f.Exists, NilRef(), w.notExistErr())}}
}

var fileInfoT types.Type

func fileInfoType() types.Type {
	if fileInfoT == nil {
		fileInfoT = sentinelType("zzFileInfo")
	}
	return fileInfoT
}

func (w *World) infoObj(f *FileObj) *Object {
	o := w.ex.newObject("fileinfo:"+f.name, nil, StructV{})
	w.fs.handles[o] = &fileHandle{f: f}
	return o
}

func (f *FileObj) nonEmpty() *Term {
	var ps []*Term
	for _, cl := range f.Cells {
		ps = append(ps, cl.Pres)
	}
	return Or(Or(ps...), f.Garbled)
}

// endsWithNewline: no present line is incomplete (only the last one can be).
func (f *FileObj) endsWithNewline() *Term {
	var bad []*Term
	for _, cl := range f.Cells {
		bad = append(bad, And(cl.Pres, Not(cl.Complete)))
	}
	return Not(Or(bad...))
}

func (w *World) lookupInvokeFS(t types.Type, method string) modelFn {
	if w.fs == nil || !types.Identical(t, fileInfoType()) {
		return nil
	}
	switch method {
	case "Size":
		return func(ex *Exec, c *callCtx) Value {
			h := w.fs.handles[c.args[0].(RefV).Alts[0].Tgt.(AddrT).Obj]
			return IntV{Ite(h.f.nonEmpty(), BVC(1, 64), BVC(0, 64)), true}
		}
	case "IsDir":
		return func(ex *Exec, c *callCtx) Value { return BoolV{False} }
	}
	return nil
}

func (w *World) newHandle(f *FileObj, h *fileHandle) Value {
	o := w.ex.newObject("file:"+f.name, nil, StructV{})
	h.f = f
	w.fs.handles[o] = h
	return Ref1(AddrT{Obj: o})
}

func (w *World) handleOf(v Value) *fileHandle {
	r := v.(RefV)
	if len(r.Alts) != 1 {
		panic(unsupported("file handle union (%d alternatives)", len(r.Alts)))
	}
	h, ok := w.fs.handles[r.Alts[0].Tgt.(AddrT).Obj]
	if !ok {
		panic(unsupported("unknown file handle"))
	}
	return h
}

func (w *World) fsOpen(ex *Exec, c *callCtx) Value {
	f := w.file(c.args[0])
	w.fs.reads = append(w.fs.reads, effRec{g: c.guard, inLock: w.lockHeld, idx: w.fs.nEff, f: f, kind: "open"})
	h := w.newHandle(f, &fileHandle{})
	return TupleV{E: []Value{MergeV(f.Exists, h, NilRef()), MergeV(f.Exists, NilRef(), w.notExistErr())}}
}

const (
	oWRONLY = 0x1
	oCREATE = 0x40
	oTRUNC  = 0x200
	oAPPEND = 0x400
)

func (w *World) fsOpenFile(ex *Exec, c *callCtx) Value {
	f := w.file(c.args[0])
	fl := c.args[1].(IntV).T
	if !fl.IsConst() {
		panic(unsupported("os.OpenFile with a non-constant flag word"))
	}
	flags := int(fl.SVal())
	ok := f.Exists
	if flags&oCREATE != 0 {
		alive, _ := w.effect(c, "create", f)
		f.Exists = Or(f.Exists, alive)
		ok = True
	}
	h := &fileHandle{write: flags&(oWRONLY|2) != 0, appendMd: flags&oAPPEND != 0}
	if flags&oTRUNC != 0 {
		alive, _ := w.effect(c, "truncate", f)
		for _, cl := range f.Cells {
			cl.Pres = And(cl.Pres, Not(alive))
		}
		f.Garbled = And(f.Garbled, Not(alive))
	} else if h.write && !h.appendMd {
		h.inPlace = true // writes start at offset 0 over whatever is there
	}
	hv := w.newHandle(f, h)
	return TupleV{E: []Value{MergeV(ok, hv, NilRef()), MergeV(ok, NilRef(), w.notExistErr())}}
}

func (w *World) fsWriteFile(ex *Exec, c *callCtx) Value {
	f := w.file(c.args[0])
	alive, _ := w.effect(c, "create", f)
	f.Exists = Or(f.Exists, alive)
	return NilRef()
}

func (w *World) fsFileStat(ex *Exec, c *callCtx) Value {
	h := w.handleOf(c.args[0])
	info := Ref1(IfaceT{Typ: fileInfoType(), V: Ref1(AddrT{Obj: w.infoObj(h.f)})})
	return TupleV{E: []Value{info, NilRef()}}
}

func (w *World) fsReadAt(ex *Exec, c *callCtx) Value {
	h := w.handleOf(c.args[0])
	buf := c.args[1].(RefV)
	st := buf.Alts[0].Tgt.(SliceT)
	b := Ite(h.f.endsWithNewline(), BVC('\n', 8), BVC('x', 8))
	arr := st.Arr.val.(ArrayV)
	ne := make([]Value, len(arr.E))
	copy(ne, arr.E)
	ne[st.Off] = MergeV(c.guard, IntV{b, false}, ne[st.Off])
	st.Arr.val = ArrayV{E: ne}
	return TupleV{E: []Value{IntV{BVC(1, 64), true}, NilRef()}}
}

// ---- writing ----

func (w *World) boxToEvent(bx *Box) Value {
	et := w.ex.pkg.Type("Event").Type().Underlying().(*types.Struct)
	ev := ZeroValue(et).(StructV)
	inner := w.ex.newBox()
	for k, v := range bx.Keys {
		if strings.HasPrefix(k, "data.") && k != "data.!malformed" {
			inner.Keys[k[5:]] = v
		}
	}
	if m, ok := bx.Keys["data.!malformed"]; ok {
		inner.Malformed = Eq(m, IntC(1))
	}
	for i := 0; i < et.NumFields(); i++ {
		switch et.Field(i).Name() {
		case "Type":
			ev.F[i] = StrV{T: bx.Keys["type"]}
		case "TS":
			ev.F[i] = StrV{T: bx.Keys["ts"]}
		case "Data":
			ev.F[i] = Ref1(BoxT{B: inner})
		}
	}
	return ev
}

// writeLine appends one marshalled event line to h's file.
func (w *World) writeLine(c *callCtx, h *fileHandle, data Value) {
	r := data.(RefV)
	if len(r.Alts) != 1 {
		panic(unsupported("write of a byte-slice union"))
	}
	bt, ok := r.Alts[0].Tgt.(BoxT)
	if !ok {
		panic(unsupported("write of non-event bytes (%T)", r.Alts[0].Tgt))
	}
	f := h.f
	alive, idx := w.effect(c, "write", f)
	fs := w.fs
	tornHere, tornAllHere := False, False
	if fs.die != nil {
		here := And(c.guard, Eq(fs.die, IntC(int64(idx))))
		tornHere = And(here, fs.torn)
		tornAllHere = And(here, fs.tornAll, Not(fs.torn))
	}
	lands := Or(alive, tornHere, tornAllHere)
	_, hasNL := bt.B.Keys["\n"]
	if h.inPlace {
		// overwriting in place: whatever was there beyond the new content survives as garbage
		wasNonEmpty := f.nonEmpty()
		for _, cl := range f.Cells {
			cl.Pres = And(cl.Pres, Not(lands))
		}
		f.Garbled = Or(f.Garbled, And(lands, wasNonEmpty, w.ex.nondet(fmt.Sprintf("world.oldlonger!%d", idx), "bool").(BoolV).T))
		h.inPlace = false
		h.appendMd = true
	}
	// an incomplete last line swallows the new bytes: the glued line does not parse
	glue := Not(f.endsWithNewline())
	for _, cl := range f.Cells {
		cl.Pres = And(cl.Pres, Not(And(lands, Not(cl.Complete))))
	}
	cell := &LineCell{Pres: lands, Blank: False, Parses: And(Not(glue), Not(tornHere)), Complete: And(BoolC(hasNL), alive), Ev: w.boxToEvent(bt.B)}
	f.Cells = append(f.Cells, cell)
}

func (w *World) fsFileWrite(ex *Exec, c *callCtx) Value {
	w.writeLine(c, w.handleOf(c.args[0]), c.args[1])
	return TupleV{E: []Value{IntV{BVC(2, 64), true}, NilRef()}}
}

// writeAll(w, data): one write(2) per call (short writes on regular files are outside the model).
func (w *World) fsWriteAll(ex *Exec, c *callCtx) Value {
	w.writeLine(c, w.handleOf(c.args[0]), c.args[1])
	return NilRef()
}

func (w *World) fsNewWriter(ex *Exec, c *callCtx) Value {
	// io.Writer interface holding *os.File
	r := c.args[0].(RefV)
	it := r.Alts[0].Tgt.(IfaceT)
	h := w.handleOf(it.V)
	o := ex.newObject("bufio.Writer", nil, StructV{})
	w.fs.writers[o] = h
	return Ref1(AddrT{Obj: o})
}

func (w *World) fsWriterWrite(ex *Exec, c *callCtx) Value {
	h := w.fs.writers[c.args[0].(RefV).Alts[0].Tgt.(AddrT).Obj]
	w.writeLine(c, h, c.args[1])
	return TupleV{E: []Value{IntV{BVC(2, 64), true}, NilRef()}}
}

func (w *World) fsRename(ex *Exec, c *callCtx) Value {
	a, b := w.file(c.args[0]), w.file(c.args[1])
	alive, _ := w.effect(c, "rename", b)
	var cells []*LineCell
	for _, cl := range b.Cells {
		cells = append(cells, &LineCell{Pres: And(cl.Pres, Not(alive)), Blank: cl.Blank, Parses: cl.Parses, Complete: cl.Complete, Ev: cl.Ev})
	}
	for _, cl := range a.Cells {
		cells = append(cells, &LineCell{Pres: And(cl.Pres, alive), Blank: cl.Blank, Parses: cl.Parses, Complete: cl.Complete, Ev: cl.Ev})
	}
	b.Cells = cells
	b.Garbled = Ite(alive, a.Garbled, b.Garbled)
	b.Exists = Or(b.Exists, alive)
	a.Exists = And(a.Exists, Not(alive))
	return NilRef()
}

// ---- reading ----

func (w *World) fsNewScanner(ex *Exec, c *callCtx) Value {
	r := c.args[0].(RefV)
	it := r.Alts[0].Tgt.(IfaceT)
	h := w.handleOf(it.V)
	o := ex.newObject("bufio.Scanner", nil, StructV{})
	w.fs.scanners[o] = &scannerState{h: h}
	return Ref1(AddrT{Obj: o})
}

func (w *World) scannerOf(v Value) *scannerState {
	return w.fs.scanners[v.(RefV).Alts[0].Tgt.(AddrT).Obj]
}

// Scan: one line cell per call; absent cells are skipped with the loop-header trick used for
// map iteration (the call is the first instruction of the `for scanner.Scan()` header).
func (w *World) fsScan(ex *Exec, c *callCtx) Value {
	s := w.scannerOf(c.args[0])
	f := s.h.f
	pos := s.pos
	s.pos++
	// the file content is the snapshot at this call (A2: one instant)
	if pos < len(f.Cells) {
		cl := f.Cells[pos]
		fr := c.fr
		fr.addEdge(fr.cur, And(fr.guard, Not(cl.Pres)), nil)
		fr.guard = And(fr.guard, cl.Pres)
		s.curCell = cl
		return BoolV{True}
	}
	if pos == len(f.Cells) {
		// a garbled tail shows up as one more complete, unparsable line
		cl := &LineCell{Pres: f.Garbled, Blank: False, Parses: False, Complete: True, Ev: ZeroValue(w.ex.pkg.Type("Event").Type())}
		fr := c.fr
		fr.addEdge(fr.cur, And(fr.guard, Not(cl.Pres)), nil)
		fr.guard = And(fr.guard, cl.Pres)
		s.curCell = cl
		return BoolV{True}
	}
	return BoolV{False}
}

func (w *World) fsBytes(ex *Exec, c *callCtx) Value {
	s := w.scannerOf(c.args[0])
	ex.nextID++
	return Ref1(LineT{Cell: s.curCell, id: ex.nextID})
}

func (w *World) fsParseError(ex *Exec, c *callCtx) Value {
	e := ex.newError("parse", StrV{T: UF("parseerrmsg", SInt, c.args[0].(StrV).T, BVToInt(c.args[1].(IntV).T))}.T)
	obj := e.Alts[0].Tgt.(IfaceT).V.(RefV).Alts[0].Tgt.(AddrT).Obj
	w.fs.parseErrs = append(w.fs.parseErrs, parseErrRec{obj: obj, path: c.args[0].(StrV).T, line: c.args[1].(IntV).T})
	return e
}

// zzParseErrInfo(err) (path string, line int, ok bool)
func (w *World) fsParseErrInfo(ex *Exec, c *callCtx) Value {
	e := c.args[0].(RefV)
	path, line, ok := StrLit("").T, BVC(0, 64), False
	for _, a := range e.Alts {
		it, isI := a.Tgt.(IfaceT)
		if !isI {
			continue
		}
		pr, isR := it.V.(RefV)
		if !isR {
			continue
		}
		for _, pa := range pr.Alts {
			at, isA := pa.Tgt.(AddrT)
			if !isA {
				continue
			}
			for _, rec := range w.fs.parseErrs {
				if rec.obj == at.Obj {
					cnd := And(a.C, pa.C)
					path = Ite(cnd, rec.path, path)
					line = Ite(cnd, rec.line, line)
					ok = Or(ok, cnd)
				}
			}
		}
	}
	return TupleV{E: []Value{StrV{T: path}, IntV{line, true}, BoolV{ok}}}
}

// ---- processes / crashes ----

// zzProcBegin(mayCrash bool): a new process starts; with mayCrash its death point is symbolic.
func (w *World) fsProcBegin(ex *Exec, c *callCtx) Value {
	fs := w.fs
	fs.proc++
	fs.reads, fs.effT = nil, nil // lock discipline is judged per process
	w.lockEvs = nil
	w.lockHeld = False
	w.lockFileSeen = false
	may := c.args[0].(BoolV).T
	if may.IsTrue() {
		fs.die = ex.nondet(fmt.Sprintf("world.die!%d", fs.proc), "nat").(TimeV).T // Int >= 0
		fs.torn = ex.nondet(fmt.Sprintf("world.torn!%d", fs.proc), "bool").(BoolV).T
		fs.tornAll = ex.nondet(fmt.Sprintf("world.tornall!%d", fs.proc), "bool").(BoolV).T
		ex.scenarioMeta[fmt.Sprintf("proc%d.firstEffect", fs.proc)] = fs.nEff
	} else {
		fs.die = nil
	}
	return nil
}

// zzProcAlive() bool: the process survived every effect it attempted so far.
func (w *World) fsProcAlive(ex *Exec, c *callCtx) Value {
	fs := w.fs
	ex.scenarioMeta[fmt.Sprintf("proc%d.effects", fs.proc)] = fs.nEff
	if fs.die == nil {
		return BoolV{True}
	}
	return BoolV{ILe(IntC(int64(fs.nEff)), fs.die)}
}

// zzLogShape(path) (exists, lastLineComplete bool, presentLines int)
func (w *World) fsLogShape(ex *Exec, c *callCtx) Value {
	f := w.file(c.args[0])
	n := BVC(0, 64)
	for _, cl := range f.Cells {
		n = BVBin("bvadd", n, Ite(cl.Pres, BVC(1, 64), BVC(0, 64)))
	}
	return TupleV{E: []Value{BoolV{f.Exists}, BoolV{f.endsWithNewline()}, IntV{n, true}}}
}

// BVToInt: integer value of a small non-negative BV term (ite/const shapes fold; otherwise UF).
func BVToInt(t *Term) *Term {
	if t.IsConst() {
		return IntC(t.SVal())
	}
	if t.op == "ite" {
		return Ite(t.args[0], BVToInt(t.args[1]), BVToInt(t.args[2]))
	}
	return UF("bv2int", SInt, t)
}

// zzFSInit(spec) string: switches the file model on and creates the initial world: a log of up
// to M arbitrary lines (blank / unparsable / event; only the last one possibly incomplete), the
// lock file and a possibly stale <log>.tmp. Returns the project root.
func (w *World) mFSInit(ex *Exec, c *callCtx) Value {
	spec, _ := litOf(c.args[0])
	hs := parseHavocSpec(spec)
	w.active = true
	w.fsInit()
	w.dirAtom = Var("world.dir", SInt)
	ex.assume(ILt(IntC(0), w.dirAtom))
	w.eventT = ex.pkg.Type("Event").Type()
	w.pending, w.written = NilRef(), NilRef()
	ergodir := UF("ergodir", SInt, w.dirAtom)
	join := func(name string) StrV { return StrV{T: UF("pathjoin", SInt, ergodir, IntC(Lits.Code(name)))} }
	logF := w.file(join("plans.jsonl"))
	logF.Exists = ex.nondet("fs.log.exists", "bool").(BoolV).T
	if hs.by["logexists"] == 1 {
		logF.Exists = True
	}
	m := hs.def
	for i := 0; i < m; i++ {
		n := fmt.Sprintf("fs.log#%d", i)
		cl := &LineCell{
			Pres:     And(logF.Exists, ex.nondet(n+".pres", "bool").(BoolV).T),
			Blank:    ex.nondet(n+".blank", "bool").(BoolV).T,
			Parses:   ex.nondet(n+".parses", "bool").(BoolV).T,
			Complete: ex.nondet(n+".complete", "bool").(BoolV).T,
			Ev:       ex.havoc(n+".ev", w.eventT, hs, ""),
		}
		if hs.by["clean"] == 1 {
			// a log written by completed commands only: whole parsable lines
			cl.Blank, cl.Parses, cl.Complete = False, True, True
		}
		for _, o := range logF.Cells {
			ex.assume(Implies(And(o.Pres, cl.Pres), o.Complete)) // only the last line may be incomplete
		}
		ex.assume(Implies(cl.Blank, cl.Complete))
		if hs.by["winv"] == 1 {
			// world invariant: complete lines are blank or parse; only a torn last line may not
			ex.assume(Implies(And(cl.Pres, cl.Complete), Or(cl.Blank, cl.Parses)))
		}
		logF.Cells = append(logF.Cells, cl)
	}
	w.logFile = logF
	for _, cl := range logF.Cells {
		cp := *cl
		w.fs.initCells = append(w.fs.initCells, &cp)
	}
	lock := w.file(join("lock"))
	lock.Exists = ex.nondet("fs.lock.exists", "bool").(BoolV).T
	tmp := w.file(StrV{T: UF("cat", SInt, join("plans.jsonl").T, IntC(Lits.Code(".tmp")))})
	tmp.Exists = ex.nondet("fs.tmp.exists", "bool").(BoolV).T
	tmp.Garbled = And(tmp.Exists, ex.nondet("fs.tmp.stale", "bool").(BoolV).T)
	w.tmpFile = tmp
	old := w.file(join("events.jsonl"))
	old.Exists = False
	dir := w.file(StrV{T: ergodir})
	dir.Exists = True
	return StrV{T: w.dirAtom}
}

// zzLockDiscipline() (writesInLock, readsFeedingWritesInLock, nonBlocking, exclusive bool):
// facts about the system calls the command(s) issued so far, decided from the real code's
// constants and control flow:
//   - every create/truncate/write/rename on the log or its temp file happens while this process
//     holds the flock;
//   - every open-for-read of the log that is followed (in program order) by such a write happens
//     while holding it (reads after the last write only report);
//   - every flock carries LOCK_NB; every flock is LOCK_EX.
func (w *World) fsLockDiscipline(ex *Exec, c *callCtx) Value {
	fs := w.fs
	isStore := func(f *FileObj) bool { return f == w.logFile || f == w.tmpFile }
	wil, ril := True, True
	for _, e := range fs.effT {
		if !isStore(e.f) {
			continue
		}
		wil = And(wil, Implies(e.g, e.inLock))
		for _, r := range fs.reads {
			if isStore(r.f) && r.idx <= e.idx {
				ril = And(ril, Implies(And(r.g, e.g), r.inLock))
			}
		}
	}
	nb, exl := True, True
	for _, l := range w.lockEvs {
		if l.Kind != "flock" {
			continue
		}
		nb = And(nb, Implies(l.G, Eq(BVBin("bvand", l.How, BVC(4, 64)), BVC(4, 64))))
		exl = And(exl, Implies(l.G, Eq(BVBin("bvand", l.How, BVC(2, 64)), BVC(2, 64))))
	}
	return TupleV{E: []Value{BoolV{wil}, BoolV{ril}, BoolV{nb}, BoolV{exl}}}
}

// zzFirstBadLine() (bad bool, line int): the specification side of readEvents over the initial
// log: lines are numbered from 1 as the scanner yields them; a line is bad when it is not blank,
// not valid JSON, and either is not the last line or the file ends with a newline.
func (w *World) fsFirstBadLine(ex *Exec, c *callCtx) Value {
	cells := w.fs.initCells
	bad := False
	line := BVC(0, 64)
	no := BVC(0, 64)
	endsNL := True
	for _, cl := range cells {
		endsNL = And(endsNL, Not(And(cl.Pres, Not(cl.Complete))))
	}
	for j, cl := range cells {
		no = BVBin("bvadd", no, Ite(cl.Pres, BVC(1, 64), BVC(0, 64)))
		later := False
		for _, o := range cells[j+1:] {
			later = Or(later, o.Pres)
		}
		isBad := And(cl.Pres, Not(cl.Blank), Not(cl.Parses), Or(later, endsNL))
		line = Ite(And(Not(bad), isBad), no, line)
		bad = Or(bad, isBad)
	}
	return TupleV{E: []Value{BoolV{bad}, IntV{line, true}}}
}

func (w *World) fsStoreEffects(ex *Exec, c *callCtx) Value {
	n := BVC(0, 64)
	for _, e := range w.fs.effT {
		if e.f == w.logFile || e.f == w.tmpFile {
			n = BVBin("bvadd", n, Ite(e.g, BVC(1, 64), BVC(0, 64)))
		}
	}
	return IntV{n, true}
}

func boxKeyEq(a, b *Box) *Term {
	keys := map[string]bool{}
	for k := range a.Keys {
		keys[k] = true
	}
	for k := range b.Keys {
		keys[k] = true
	}
	cs := []*Term{Eq(a.Malformed, b.Malformed)}
	for k := range keys {
		x, ok1 := a.Keys[k]
		y, ok2 := b.Keys[k]
		if !ok1 {
			x = IntC(0)
		}
		if !ok2 {
			y = IntC(0)
		}
		cs = append(cs, Eq(x, y))
	}
	return And(cs...)
}

func eventEq(a, b Value) *Term {
	x, y := a.(StructV), b.(StructV)
	cs := []*Term{}
	for i := range x.F {
		switch xv := x.F[i].(type) {
		case StrV:
			cs = append(cs, Eq(xv.T, y.F[i].(StrV).T))
		case RefV:
			yv := y.F[i].(RefV)
			var alts []*Term
			for _, p := range xv.Alts {
				for _, q := range yv.Alts {
					pb, ok1 := p.Tgt.(BoxT)
					qb, ok2 := q.Tgt.(BoxT)
					if ok1 && ok2 {
						alts = append(alts, And(p.C, q.C, boxKeyEq(pb.B, qb.B)))
					}
				}
			}
			cs = append(cs, Or(alts...))
		}
	}
	return And(cs...)
}

// zzHistoryPreserved(): every line of the initial log is still present in the current log with
// the same event content (order is checked only through the positions of the rewritten cells).
func (w *World) fsHistoryPreserved(ex *Exec, c *callCtx) Value {
	ok := True
	cur := w.logFile.Cells
	for j, ic := range w.fs.initCells {
		var found []*Term
		for k, cc := range cur {
			if k < j {
				continue
			}
			found = append(found, And(cc.Pres, cc.Complete, cc.Parses, eventEq(ic.Ev, cc.Ev)))
		}
		ok = And(ok, Implies(And(ic.Pres, Not(ic.Blank)), Or(found...)))
	}
	return BoolV{ok}
}
