// L0 file model (DESIGN 3.4): the log as a sequence of line objects, files as names bound to
// contents, effects indexed in program order so that a crash point is one symbolic integer.
// Switched on by the harness intrinsic zzFSInit; ergo's own storage functions (readEvents,
// appendEvents, writeEventsFile, replaceEventsAtomically, appendEventsAtomically, getEventsPath,
// loadGraph, syncDir) then run for real on top of these system-call models.
package main

import (
	"fmt"
	"go/types"
	"strings"
)

type LineCell struct {
	Pres     *Term
	Blank    *Term
	Parses   *Term
	Complete *Term
	Ev       Value // Event struct value
}

// LineT: the bytes of one line as handed out by the scanner.
type LineT struct {
	Cell *LineCell
	id   int
}

type FileObj struct {
	name    string
	leaf    string // file name below .ergo ("plans.jsonl", "plans.jsonl.tmp", ...) when it can be spelled
	Exists  *Term
	Exists0 *Term // at world initialisation
	Cells   []*LineCell
	Garbled *Term // overwritten in place (no O_APPEND / O_TRUNC): an unparsable complete last line may follow
}

type fAlt struct {
	g *Term
	f *FileObj
}

type fileHandle struct {
	f        *FileObj
	path     Value  // os.CreateTemp: the name handed back by Name()
	sizeAt   *Term  // for a path-based stat result of a lagging reader: the instant it describes
	alts     []fAlt // the files this handle may refer to (path chosen by a symbolic condition); guards are exclusive
	appendMd bool
	inPlace  bool
	write    bool
}

type scannerState struct {
	h       *fileHandle
	pos     int
	curCell *LineCell
}

type FS struct {
	on       bool
	files    map[*Term]*FileObj
	handles  map[*Object]*fileHandle
	scanners map[*Object]*scannerState
	writers  map[*Object]*fileHandle
	pending  map[*Object][]pendingWrite // bufio.Writer content not yet flushed
	die      *Term // effects with index >= die do not happen
	torn     *Term // the write with index == die lands a strict prefix
	tornAll  *Term // ... everything but the newline
	nEff     int
	nFileFd  int
	prevDie  *Term // the previous process's death / progress variable (a writer observed by a reader)
	lagStat  bool  // path-based os.Stat of the reader sees an earlier instant than its later open
	nInstant int
	nTemp    int
	lockFile *FileObj
	lockReplaced *Term // some rename put another file in the lock file's place
	proc     int
	initCells []*LineCell
	effT     []effRec
	reads    []effRec
	effects  []map[string]interface{}
	parseErrs []parseErrRec
}

type pendingWrite struct {
	g    *Term
	data Value
}

type effRec struct {
	g      *Term
	inLock *Term
	idx    int
	f      *FileObj
	kind   string
}

type parseErrRec struct {
	obj  *Object
	path *Term
	line *Term
}

func (w *World) fsInit() {
	w.fs = &FS{on: true, files: map[*Term]*FileObj{}, handles: map[*Object]*fileHandle{}, scanners: map[*Object]*scannerState{}, writers: map[*Object]*fileHandle{}}
	for name, m := range map[string]modelFn{
		"os.Stat":                    w.fsStat,
		"os.Lstat":                   w.fsStat, // no symbolic links in the model
		"(fs.FileMode).IsRegular":    func(ex *Exec, c *callCtx) Value { return BoolV{True} },
		"(io/fs.FileMode).IsRegular": func(ex *Exec, c *callCtx) Value { return BoolV{True} },
		"os.Open":                    w.fsOpen,
		"os.OpenFile":                w.fsOpenFile,
		"os.Rename":                  w.fsRename,
		"os.Remove": func(ex *Exec, c *callCtx) Value {
			fa := w.filesOf(c.args[0])
			existed := altsExists(fa)
			for _, x := range fa {
				f := x.f
				alive, _ := w.effect(withGuard(c, x.g), "remove", f)
				f.Exists = And(f.Exists, Not(alive))
				for _, cl := range f.Cells {
					cl.Pres = And(cl.Pres, Not(alive))
				}
				f.Garbled = And(f.Garbled, Not(alive))
			}
			return MergeV(existed, NilRef(), w.notExistErr())
		},
		"os.WriteFile":               w.fsWriteFile,
		"os.ReadFile": func(ex *Exec, c *callCtx) Value {
			panic(unsupported("os.ReadFile on the file model: a file is a sequence of line objects, its raw bytes are not represented"))
		},
		"os.CreateTemp": func(ex *Exec, c *callCtx) Value {
			// a fresh, uniquely named, empty file in the given directory
			w.fs.nTemp++
			name := StrV{T: UF("pathjoin", SInt, c.args[0].(StrV).T, IntC(Lits.Code(fmt.Sprintf("zz-createtemp-%d", w.fs.nTemp))))}
			f := w.file(name)
			alive, _ := w.effect(c, "create", f)
			f.Exists = Or(f.Exists, alive)
			h := &fileHandle{f: f, write: true, appendMd: true, path: name}
			return TupleV{E: []Value{w.newHandle(f, h), NilRef()}}
		},
		"(*os.File).Name": func(ex *Exec, c *callCtx) Value {
			h := w.handleOf(c.args[0])
			if h.path == nil {
				panic(unsupported("(*os.File).Name of a file not opened through os.CreateTemp"))
			}
			return h.path
		},
		"(*os.File).Chmod": func(ex *Exec, c *callCtx) Value { return NilRef() },
		ergoPath + ".zzLockFileStable": func(ex *Exec, c *callCtx) Value {
			return BoolV{Not(w.fs.lockReplaced)}
		},
		"os.MkdirAll":                func(ex *Exec, c *callCtx) Value { return NilRef() },
		"(*os.File).Close":           func(ex *Exec, c *callCtx) Value { return NilRef() },
		"(*os.File).Sync":            func(ex *Exec, c *callCtx) Value { return NilRef() },
		"(*os.File).Stat":            w.fsFileStat,
		"(*os.File).Fd": func(ex *Exec, c *callCtx) Value {
			// a descriptor owned by an *os.File: the runtime closes it when the File is collected
			w.fs.nFileFd++
			return IntV{BVC(int64(500+w.fs.nFileFd), 64), false}
		},
		ergoPath + ".zzLockFDOwned": func(ex *Exec, c *callCtx) Value {
			ok := True
			for _, l := range w.lockEvs {
				if l.Kind == "flock" && l.Unowned {
					ok = And(ok, Not(l.G))
				}
			}
			return BoolV{ok}
		},
		"(*os.File).ReadAt":          w.fsReadAt,
		"(*os.File).Write":           w.fsFileWrite,
		"bufio.NewScanner":           w.fsNewScanner,
		"(*bufio.Scanner).Buffer":    func(ex *Exec, c *callCtx) Value { return nil },
		"(*bufio.Scanner).Scan":      w.fsScan,
		"(*bufio.Scanner).Bytes":     w.fsBytes,
		"(*bufio.Scanner).Err":       func(ex *Exec, c *callCtx) Value { return NilRef() },
		"bufio.NewWriter":            w.fsNewWriter,
		"(*bufio.Writer).Write":      w.fsWriterWrite,
		"(*bufio.Writer).Flush":      w.fsWriterFlush,
		ergoPath + ".writeAll":       w.fsWriteAll,
		ergoPath + ".formatEventsParseError": w.fsParseError,
		ergoPath + ".zzProcBegin":    w.fsProcBegin,
		ergoPath + ".zzProcAlive":    w.fsProcAlive,
		ergoPath + ".zzParseErrInfo": w.fsParseErrInfo,
		ergoPath + ".zzLogShape":     w.fsLogShape,
		ergoPath + ".zzFirstBadLine": w.fsFirstBadLine,
		ergoPath + ".zzFileExisted": func(ex *Exec, c *callCtx) Value {
			var ps []*Term
			for _, x := range w.filesOf(c.args[0]) {
				e := x.f.Exists0
				if e == nil {
					e = False // did not exist when the world was built
				}
				ps = append(ps, And(x.g, e))
			}
			return BoolV{Or(ps...)}
		},
		ergoPath + ".zzStoreEffects": w.fsStoreEffects,
		ergoPath + ".zzFileEffects": func(ex *Exec, c *callCtx) Value {
			n := BVC(0, 64)
			for _, x := range w.filesOf(c.args[0]) {
				for _, e := range w.fs.effT {
					if e.f == x.f {
						n = BVBin("bvadd", n, Ite(And(x.g, e.g), BVC(1, 64), BVC(0, 64)))
					}
				}
			}
			return IntV{n, true}
		},
		ergoPath + ".zzHistoryPreserved": w.fsHistoryPreserved,
		ergoPath + ".zzLockDiscipline": w.fsLockDiscipline,
		ergoPath + ".zzReaderInstants": func(ex *Exec, c *callCtx) Value { w.fs.lagStat = true; return nil },
		ergoPath + ".zzNoTornWrites": func(ex *Exec, c *callCtx) Value {
			if w.fs.die != nil {
				ex.assume(And(Not(w.fs.torn), Not(w.fs.tornAll)))
			}
			return nil
		},
	} {
		w.models[name] = m
	}
	// the ergo-level storage stubs are off: the real functions run
	for _, n := range []string{"loadGraph", "readEvents", "replayEvents", "appendEvents", "appendEventsAtomically", "replaceEventsAtomically", "getEventsPath", "ensureFileExists"} {
		delete(w.models, ergoPath+"."+n)
	}
	w.fs.die = nil
}

func (w *World) fileT(t *Term) *FileObj {
	f, ok := w.fs.files[t]
	if !ok {
		f = &FileObj{name: t.Pretty(3), leaf: leafOf(t), Exists: False, Garbled: False}
		w.fs.files[t] = f
	}
	return f
}

// leafOf spells a file term as the name below the store directory: pathjoin(<dir>, "x") -> "x",
// cat(p, ".tmp") -> leaf(p)+".tmp".
func leafOf(t *Term) string {
	switch t.op {
	case "uf:pathjoin":
		if len(t.args) == 2 && t.args[1].IsConst() {
			if l, ok := Lits.byCode[t.args[1].ival.Int64()]; ok {
				return l
			}
		}
	case "uf:cat":
		if len(t.args) == 2 && t.args[1].IsConst() {
			if l, ok := Lits.byCode[t.args[1].ival.Int64()]; ok {
				if b := leafOf(t.args[0]); b != "" {
					return b + l
				}
			}
		}
	}
	return ""
}

func (w *World) file(path Value) *FileObj {
	a := w.filesOf(path)
	if len(a) != 1 {
		panic(unsupported("path with %d alternatives where one file is expected", len(a)))
	}
	return a[0].f
}

// filesOf: a path computed by symbolic choices (getEventsPath: plans.jsonl or events.jsonl) names
// one of several files; the alternatives' guards are exclusive and exhaustive.
func (w *World) filesOf(path Value) []fAlt {
	var out []fAlt
	var walk func(t, g *Term)
	walk = func(t, g *Term) {
		if g.IsFalse() {
			return
		}
		if t.op == "ite" {
			walk(t.args[1], And(g, t.args[0]))
			walk(t.args[2], And(g, Not(t.args[0])))
			return
		}
		if t.op == "uf:cat" && t.args[0].op == "ite" {
			// <chosen log>.tmp
			walk(Ite(t.args[0].args[0], UF("cat", SInt, t.args[0].args[1], t.args[1]), UF("cat", SInt, t.args[0].args[2], t.args[1])), g)
			return
		}
		f := w.fileT(t)
		for i := range out {
			if out[i].f == f {
				out[i].g = Or(out[i].g, g)
				return
			}
		}
		out = append(out, fAlt{g, f})
	}
	walk(path.(StrV).T, True)
	return out
}

func withGuard(c *callCtx, g *Term) *callCtx {
	if g.IsTrue() {
		return c
	}
	cp := *c
	cp.guard = And(c.guard, g)
	return &cp
}

func altsExists(a []fAlt) *Term {
	var ps []*Term
	for _, x := range a {
		ps = append(ps, And(x.g, x.f.Exists))
	}
	return Or(ps...)
}

func (h *fileHandle) files() []fAlt {
	if len(h.alts) > 0 {
		return h.alts
	}
	return []fAlt{{True, h.f}}
}

func (h *fileHandle) nonEmpty() *Term {
	var ps []*Term
	for _, x := range h.files() {
		ps = append(ps, And(x.g, x.f.nonEmpty()))
	}
	return Or(ps...)
}

func (h *fileHandle) endsWithNewline() *Term {
	var ps []*Term
	for _, x := range h.files() {
		ps = append(ps, Implies(x.g, x.f.endsWithNewline()))
	}
	return And(ps...)
}

// cells: the lines a reader of this handle sees now (exactly one alternative's are present).
func (h *fileHandle) cells(evZero Value) []*LineCell {
	fa := h.files()
	if len(fa) == 1 && fa[0].g.IsTrue() {
		f := fa[0].f
		out := append([]*LineCell(nil), f.Cells...)
		if !f.Garbled.IsFalse() {
			out = append(out, &LineCell{Pres: f.Garbled, Blank: False, Parses: False, Complete: True, Ev: evZero})
		}
		return out
	}
	var out []*LineCell
	for _, x := range fa {
		for _, cl := range x.f.Cells {
			out = append(out, &LineCell{Pres: And(x.g, cl.Pres), Blank: cl.Blank, Parses: cl.Parses, Complete: cl.Complete, Ev: cl.Ev})
		}
		if !x.f.Garbled.IsFalse() {
			out = append(out, &LineCell{Pres: And(x.g, x.f.Garbled), Blank: False, Parses: False, Complete: True, Ev: evZero})
		}
	}
	return out
}

// effect allocates the next effect index; returns the guard under which it happens entirely.
func (w *World) effect(c *callCtx, kind string, f *FileObj) (alive *Term, idx int) {
	fs := w.fs
	idx = fs.nEff
	fs.nEff++
	name := ""
	if f != nil {
		name = f.name
	}
	rec := map[string]interface{}{"i": idx, "kind": kind, "file": name, "proc": fs.proc}
	if f != nil {
		rec["leaf"] = f.leaf
	}
	fs.effects = append(fs.effects, rec)
	w.ex.scenarioMeta["effects"] = fs.effects
	fs.effT = append(fs.effT, effRec{g: c.guard, inLock: w.lockHeld, idx: idx, f: f, kind: kind})
	// which effects lie on the path the solver picks (the native replay needs to know)
	ev := w.ex.nondet(fmt.Sprintf("world.eff!%d", idx), "bool").(BoolV).T
	w.ex.assume(Eq(ev, c.guard))
	if fs.die == nil {
		return c.guard, idx
	}
	return And(c.guard, ILt(IntC(int64(idx)), fs.die)), idx
}

func (w *World) notExistErr() Value {
	p := w.ex.prog.ImportedPackage("os")
	g := p.Var("ErrNotExist")
	o := w.ex.globalObj(g)
	return o.val
}

func (w *World) fsStat(ex *Exec, c *callCtx) Value {
	fa := w.filesOf(c.args[0])
	ex1 := altsExists(fa)
	h := &fileHandle{f: fa[0].f, alts: fa}
	if w.fs.lagStat && w.fs.die == nil && w.fs.prevDie != nil {
		// a reader's path lookups happen one after the other while the writer goes on: this stat
		// sees the store after k effects of the writer, k <= what the reader's later open will see
		w.fs.nInstant++
		k := ex.nondet(fmt.Sprintf("world.instant!%d", w.fs.nInstant), "nat").(TimeV).T
		ex.assume(ILe(k, w.fs.prevDie))
		ex1 = Subst(ex1, w.fs.prevDie, k)
		h.sizeAt = k
	}
	info := Ref1(IfaceT{Typ: fileInfoType(), V: Ref1(AddrT{Obj: w.infoObjH(h)})})
	return TupleV{E: []Value{MergeV(ex1, info, NilRef()), MergeV(ex1, NilRef(), w.notExistErr())}}
}

var fileInfoT types.Type

func fileInfoType() types.Type {
	if fileInfoT == nil {
		fileInfoT = sentinelType("zzFileInfo")
	}
	return fileInfoT
}

func (w *World) infoObjH(h *fileHandle) *Object {
	o := w.ex.newObject("fileinfo:"+h.f.name, nil, StructV{})
	w.fs.handles[o] = h
	return o
}

func (f *FileObj) nonEmpty() *Term {
	var ps []*Term
	for _, cl := range f.Cells {
		ps = append(ps, cl.Pres)
	}
	return Or(Or(ps...), f.Garbled)
}

// endsWithNewline: no present line is incomplete (only the last one can be).
func (f *FileObj) endsWithNewline() *Term {
	var bad []*Term
	for _, cl := range f.Cells {
		bad = append(bad, And(cl.Pres, Not(cl.Complete)))
	}
	return Not(Or(bad...))
}

func (w *World) lookupInvokeFS(t types.Type, method string) modelFn {
	if w.fs == nil || !types.Identical(t, fileInfoType()) {
		return nil
	}
	switch method {
	case "Size":
		return func(ex *Exec, c *callCtx) Value {
			h := w.fs.handles[c.args[0].(RefV).Alts[0].Tgt.(AddrT).Obj]
			ne := h.nonEmpty()
			if h.sizeAt != nil {
				ne = Subst(ne, w.fs.prevDie, h.sizeAt)
			}
			return IntV{Ite(ne, BVC(1, 64), BVC(0, 64)), true}
		}
	case "IsDir":
		return func(ex *Exec, c *callCtx) Value { return BoolV{False} }
	case "Mode":
		return func(ex *Exec, c *callCtx) Value { return IntV{BVC(0o644, 32), false} } // a regular file
	}
	return nil
}

func (w *World) newHandle(f *FileObj, h *fileHandle) Value {
	o := w.ex.newObject("file:"+f.name, nil, StructV{})
	if h.f == nil {
		h.f = f
	}
	w.fs.handles[o] = h
	return Ref1(AddrT{Obj: o})
}

func (w *World) handleOf(v Value) *fileHandle {
	r := v.(RefV)
	if len(r.Alts) != 1 {
		panic(unsupported("file handle union (%d alternatives)", len(r.Alts)))
	}
	h, ok := w.fs.handles[r.Alts[0].Tgt.(AddrT).Obj]
	if !ok {
		panic(unsupported("unknown file handle"))
	}
	return h
}

func (w *World) fsOpen(ex *Exec, c *callCtx) Value {
	fa := w.filesOf(c.args[0])
	for _, x := range fa {
		w.fs.reads = append(w.fs.reads, effRec{g: And(c.guard, x.g), inLock: w.lockHeld, idx: w.fs.nEff, f: x.f, kind: "open"})
	}
	ex1 := altsExists(fa)
	h := w.newHandle(fa[0].f, &fileHandle{f: fa[0].f, alts: fa})
	return TupleV{E: []Value{MergeV(ex1, h, NilRef()), MergeV(ex1, NilRef(), w.notExistErr())}}
}

const (
	oWRONLY = 0x1
	oCREATE = 0x40
	oTRUNC  = 0x200
	oAPPEND = 0x400
)

func (w *World) fsOpenFile(ex *Exec, c *callCtx) Value {
	fa := w.filesOf(c.args[0])
	fl := c.args[1].(IntV).T
	if !fl.IsConst() {
		panic(unsupported("os.OpenFile with a non-constant flag word"))
	}
	flags := int(fl.SVal())
	ok := altsExists(fa)
	h := &fileHandle{f: fa[0].f, alts: fa, write: flags&(oWRONLY|2) != 0, appendMd: flags&oAPPEND != 0}
	for _, x := range fa {
		f := x.f
		cx := withGuard(c, x.g)
		if flags&oCREATE != 0 {
			alive, _ := w.effect(cx, "create", f)
			f.Exists = Or(f.Exists, alive)
			ok = True
		}
		if flags&oTRUNC != 0 {
			alive, _ := w.effect(cx, "truncate", f)
			for _, cl := range f.Cells {
				cl.Pres = And(cl.Pres, Not(alive))
			}
			f.Garbled = And(f.Garbled, Not(alive))
		}
	}
	if flags&oTRUNC == 0 && h.write && !h.appendMd {
		h.inPlace = true // writes start at offset 0 over whatever is there
	}
	hv := w.newHandle(fa[0].f, h)
	return TupleV{E: []Value{MergeV(ok, hv, NilRef()), MergeV(ok, NilRef(), w.notExistErr())}}
}

func (w *World) fsWriteFile(ex *Exec, c *callCtx) Value {
	for _, x := range w.filesOf(c.args[0]) {
		alive, _ := w.effect(withGuard(c, x.g), "create", x.f)
		x.f.Exists = Or(x.f.Exists, alive)
	}
	return NilRef()
}

func (w *World) fsFileStat(ex *Exec, c *callCtx) Value {
	h := w.handleOf(c.args[0])
	info := Ref1(IfaceT{Typ: fileInfoType(), V: Ref1(AddrT{Obj: w.infoObjH(h)})})
	return TupleV{E: []Value{info, NilRef()}}
}

func (w *World) fsReadAt(ex *Exec, c *callCtx) Value {
	h := w.handleOf(c.args[0])
	buf := c.args[1].(RefV)
	st := buf.Alts[0].Tgt.(SliceT)
	b := Ite(h.endsWithNewline(), BVC('\n', 8), BVC('x', 8))
	arr := st.Arr.val.(ArrayV)
	ne := make([]Value, len(arr.E))
	copy(ne, arr.E)
	ne[st.Off] = MergeV(c.guard, IntV{b, false}, ne[st.Off])
	st.Arr.val = ArrayV{E: ne}
	return TupleV{E: []Value{IntV{BVC(1, 64), true}, NilRef()}}
}

// ---- writing ----

func (w *World) boxToEvent(bx *Box) Value {
	et := w.ex.pkg.Type("Event").Type().Underlying().(*types.Struct)
	ev := ZeroValue(et).(StructV)
	inner := w.ex.newBox()
	for k, v := range bx.Keys {
		if strings.HasPrefix(k, "data.") && k != "data.!malformed" {
			inner.Keys[k[5:]] = v
		}
	}
	if m, ok := bx.Keys["data.!malformed"]; ok {
		inner.Malformed = Eq(m, IntC(1))
	}
	for i := 0; i < et.NumFields(); i++ {
		switch et.Field(i).Name() {
		case "Type":
			ev.F[i] = StrV{T: bx.Keys["type"]}
		case "TS":
			ev.F[i] = StrV{T: bx.Keys["ts"]}
		case "Data":
			ev.F[i] = Ref1(BoxT{B: inner})
		}
	}
	return ev
}

// writeLine appends one marshalled event line to h's file.
func (w *World) writeLine(c *callCtx, h *fileHandle, data Value) {
	r := data.(RefV)
	if len(r.Alts) == 1 {
		if _, single := r.Alts[0].Tgt.(BoxT); !single {
			if elems, ok := w.ex.asBoxSeq(r); ok {
				w.writeSeq(c, h, elems)
				return
			}
		}
	} else if elems, ok := w.ex.asBoxSeq(r); ok {
		w.writeSeq(c, h, elems)
		return
	}
	if len(r.Alts) != 1 {
		panic(unsupported("write of a byte-slice union"))
	}
	bt, ok := r.Alts[0].Tgt.(BoxT)
	if !ok {
		panic(unsupported("write of non-event bytes (%T)", r.Alts[0].Tgt))
	}
	_, hasNL := bt.B.Keys["\n"]
	wasInPlace := h.inPlace
	for _, x := range h.files() {
		w.writeLine1(withGuard(c, x.g), h, x.f, bt, hasNL, wasInPlace)
	}
	if wasInPlace {
		h.inPlace = false
		h.appendMd = true
	}
}

// writeSeq: ONE write(2) carrying several lines. Killed inside it (torn), a prefix of the lines
// lands whole and the next one as a fragment; tornAll = everything but the final newline.
func (w *World) writeSeq(c *callCtx, h *fileHandle, elems []SeqElem) {
	if h.inPlace {
		panic(unsupported("multi-line write over existing content in place"))
	}
	for _, x := range h.files() {
		cx := withGuard(c, x.g)
		f := x.f
		alive, idx := w.effect(cx, "write", f)
		w.ex.scenarioMeta[fmt.Sprintf("effect%d.lines", idx)] = len(elems)
		fs := w.fs
		tornHere, tornAllHere := False, False
		k := IntC(0)
		if fs.die != nil {
			here := And(cx.guard, Eq(fs.die, IntC(int64(idx))))
			tornHere = And(here, fs.torn)
			tornAllHere = And(here, fs.tornAll, Not(fs.torn))
			k = w.ex.nondet(fmt.Sprintf("world.tornlines!%d", idx), "nat").(TimeV).T
		}
		glue := Not(f.endsWithNewline())
		anyLands := Or(alive, tornHere, tornAllHere)
		for _, cl := range f.Cells {
			cl.Pres = And(cl.Pres, Not(And(anyLands, Not(cl.Complete))))
		}
		var earlier []*Term
		for i, e := range elems {
			var later []*Term
			for _, l := range elems[i+1:] {
				later = append(later, l.G)
			}
			isLast := Not(Or(later...))
			isFirst := Not(Or(earlier...))
			whole := Or(alive, And(tornHere, ILt(IntC(int64(i)), k)), And(tornAllHere, Not(isLast)))
			frag := And(tornHere, Eq(k, IntC(int64(i))))
			noNL := And(tornAllHere, isLast)
			_, hasNL := e.B.Keys["\n"]
			cell := &LineCell{
				Pres:     And(e.G, Or(whole, frag, noNL)),
				Blank:    False,
				Parses:   And(Not(And(glue, isFirst)), Not(frag)),
				Complete: And(BoolC(hasNL), whole),
				Ev:       w.boxToEvent(e.B),
			}
			f.Cells = append(f.Cells, cell)
			earlier = append(earlier, e.G)
		}
	}
}

func (w *World) writeLine1(c *callCtx, h *fileHandle, f *FileObj, bt BoxT, hasNL, inPlace bool) {
	alive, idx := w.effect(c, "write", f)
	fs := w.fs
	tornHere, tornAllHere := False, False
	if fs.die != nil {
		here := And(c.guard, Eq(fs.die, IntC(int64(idx))))
		tornHere = And(here, fs.torn)
		tornAllHere = And(here, fs.tornAll, Not(fs.torn))
	}
	lands := Or(alive, tornHere, tornAllHere)
	if inPlace {
		// overwriting in place: whatever was there beyond the new content survives as garbage
		wasNonEmpty := f.nonEmpty()
		for _, cl := range f.Cells {
			cl.Pres = And(cl.Pres, Not(lands))
		}
		f.Garbled = Or(f.Garbled, And(lands, wasNonEmpty, w.ex.nondet(fmt.Sprintf("world.oldlonger!%d", idx), "bool").(BoolV).T))
	}
	// an incomplete last line swallows the new bytes: the glued line does not parse
	glue := Not(f.endsWithNewline())
	for _, cl := range f.Cells {
		cl.Pres = And(cl.Pres, Not(And(lands, Not(cl.Complete))))
	}
	cell := &LineCell{Pres: lands, Blank: False, Parses: And(Not(glue), Not(tornHere)), Complete: And(BoolC(hasNL), alive), Ev: w.boxToEvent(bt.B)}
	f.Cells = append(f.Cells, cell)
}

func (w *World) fsFileWrite(ex *Exec, c *callCtx) Value {
	w.writeLine(c, w.handleOf(c.args[0]), c.args[1])
	return TupleV{E: []Value{IntV{BVC(2, 64), true}, NilRef()}}
}

// writeAll(w, data): one write(2) per call (short writes on regular files are outside the model).
func (w *World) fsWriteAll(ex *Exec, c *callCtx) Value {
	w.writeLine(c, w.handleOf(c.args[0]), c.args[1])
	return NilRef()
}

func (w *World) fsNewWriter(ex *Exec, c *callCtx) Value {
	// io.Writer interface holding *os.File
	r := c.args[0].(RefV)
	it := r.Alts[0].Tgt.(IfaceT)
	h := w.handleOf(it.V)
	o := ex.newObject("bufio.Writer", nil, StructV{})
	w.fs.writers[o] = h
	return Ref1(AddrT{Obj: o})
}

// bufio.Writer: bytes reach the file at Flush (a full buffer would flush a prefix of the same
// lines earlier; logs beyond the 4 KiB buffer are outside the model). Unflushed bytes are lost.
func (w *World) fsWriterWrite(ex *Exec, c *callCtx) Value {
	o := c.args[0].(RefV).Alts[0].Tgt.(AddrT).Obj
	if w.fs.pending == nil {
		w.fs.pending = map[*Object][]pendingWrite{}
	}
	w.fs.pending[o] = append(w.fs.pending[o], pendingWrite{g: c.guard, data: c.args[1]})
	return TupleV{E: []Value{IntV{BVC(2, 64), true}, NilRef()}}
}

func (w *World) fsWriterFlush(ex *Exec, c *callCtx) Value {
	o := c.args[0].(RefV).Alts[0].Tgt.(AddrT).Obj
	h := w.fs.writers[o]
	for _, p := range w.fs.pending[o] {
		w.writeLine(withGuard(c, p.g), h, p.data)
	}
	delete(w.fs.pending, o)
	return NilRef()
}

func (w *World) fsRename(ex *Exec, c *callCtx) Value {
	for _, xa := range w.filesOf(c.args[0]) {
		for _, xb := range w.filesOf(c.args[1]) {
			g := And(xa.g, xb.g)
			if g.IsFalse() {
				continue
			}
			a, b := xa.f, xb.f
			alive, ridx := w.effect(withGuard(c, g), "rename", b)
			if b == w.fs.lockFile {
				w.fs.lockReplaced = Or(w.fs.lockReplaced, And(c.guard, g))
			}
			w.fs.effects[len(w.fs.effects)-1]["srcleaf"] = a.leaf
			_ = ridx
			// line i of the new content and line i of the old content are never both there:
			// one cell per position (keeps the number of cells at max, not sum, of the two files)
			var cells []*LineCell
			for i := 0; i < len(a.Cells) || i < len(b.Cells); i++ {
				switch {
				case !g.IsTrue() && i < len(b.Cells):
					// a path chosen by a symbolic condition: keep the two contents side by side
					// (merging them cell by cell nests the choice into every field)
					cl := b.Cells[i]
					cells = append(cells, &LineCell{Pres: And(cl.Pres, Not(alive)), Blank: cl.Blank, Parses: cl.Parses, Complete: cl.Complete, Ev: cl.Ev})
				case i < len(a.Cells) && i < len(b.Cells):
					na, ob := a.Cells[i], b.Cells[i]
					cells = append(cells, &LineCell{Pres: Ite(alive, na.Pres, ob.Pres), Blank: Ite(alive, na.Blank, ob.Blank), Parses: Ite(alive, na.Parses, ob.Parses),
						Complete: Ite(alive, na.Complete, ob.Complete), Ev: MergeV(alive, na.Ev, ob.Ev)})
				case i < len(a.Cells):
					cl := a.Cells[i]
					cells = append(cells, &LineCell{Pres: And(cl.Pres, alive), Blank: cl.Blank, Parses: cl.Parses, Complete: cl.Complete, Ev: cl.Ev})
				default:
					cl := b.Cells[i]
					cells = append(cells, &LineCell{Pres: And(cl.Pres, Not(alive)), Blank: cl.Blank, Parses: cl.Parses, Complete: cl.Complete, Ev: cl.Ev})
				}
			}
			if !g.IsTrue() {
				cells = cells[:0]
				for _, cl := range b.Cells {
					cells = append(cells, &LineCell{Pres: And(cl.Pres, Not(alive)), Blank: cl.Blank, Parses: cl.Parses, Complete: cl.Complete, Ev: cl.Ev})
				}
				for _, cl := range a.Cells {
					cells = append(cells, &LineCell{Pres: And(cl.Pres, alive), Blank: cl.Blank, Parses: cl.Parses, Complete: cl.Complete, Ev: cl.Ev})
				}
			}
			for _, cl := range a.Cells {
				cl.Pres = And(cl.Pres, Not(alive))
			}
			b.Cells = cells
			b.Garbled = Ite(alive, a.Garbled, b.Garbled)
			a.Garbled = And(a.Garbled, Not(alive))
			b.Exists = Or(b.Exists, alive)
			a.Exists = And(a.Exists, Not(alive))
			// open descriptors refer to the file, not to its name: a handle on a now writes into b
			for _, h := range w.fs.handles {
				fa := h.files()
				var na []fAlt
				changed := false
				for _, x := range fa {
					if x.f == a && h.write {
						changed = true
						na = append(na, fAlt{And(x.g, Not(alive)), a}, fAlt{And(x.g, alive), b})
					} else {
						na = append(na, x)
					}
				}
				if changed {
					h.alts = na
				}
			}
		}
	}
	return NilRef()
}

// ---- reading ----

func (w *World) fsNewScanner(ex *Exec, c *callCtx) Value {
	r := c.args[0].(RefV)
	it := r.Alts[0].Tgt.(IfaceT)
	h := w.handleOf(it.V)
	o := ex.newObject("bufio.Scanner", nil, StructV{})
	w.fs.scanners[o] = &scannerState{h: h}
	return Ref1(AddrT{Obj: o})
}

func (w *World) scannerOf(v Value) *scannerState {
	return w.fs.scanners[v.(RefV).Alts[0].Tgt.(AddrT).Obj]
}

// Scan: one line cell per call; absent cells are skipped with the loop-header trick used for
// map iteration (the call is the first instruction of the `for scanner.Scan()` header).
func (w *World) fsScan(ex *Exec, c *callCtx) Value {
	s := w.scannerOf(c.args[0])
	pos := s.pos
	s.pos++
	// the file content is the snapshot at this call (A2: one instant)
	cells := s.h.cells(ZeroValue(w.ex.pkg.Type("Event").Type()))
	if pos < len(cells) {
		cl := cells[pos]
		fr := c.fr
		fr.addEdge(fr.cur, And(fr.guard, Not(cl.Pres)), nil)
		fr.guard = And(fr.guard, cl.Pres)
		s.curCell = cl
		return BoolV{True}
	}
	return BoolV{False}
}

func (w *World) fsBytes(ex *Exec, c *callCtx) Value {
	s := w.scannerOf(c.args[0])
	ex.nextID++
	return Ref1(LineT{Cell: s.curCell, id: ex.nextID})
}

func (w *World) fsParseError(ex *Exec, c *callCtx) Value {
	e := ex.newError("parse", StrV{T: UF("parseerrmsg", SInt, c.args[0].(StrV).T, BVToInt(c.args[1].(IntV).T))}.T)
	obj := e.Alts[0].Tgt.(IfaceT).V.(RefV).Alts[0].Tgt.(AddrT).Obj
	w.fs.parseErrs = append(w.fs.parseErrs, parseErrRec{obj: obj, path: c.args[0].(StrV).T, line: c.args[1].(IntV).T})
	return e
}

// zzParseErrInfo(err) (path string, line int, ok bool)
func (w *World) fsParseErrInfo(ex *Exec, c *callCtx) Value {
	e := c.args[0].(RefV)
	path, line, ok := StrLit("").T, BVC(0, 64), False
	for _, a := range e.Alts {
		it, isI := a.Tgt.(IfaceT)
		if !isI {
			continue
		}
		pr, isR := it.V.(RefV)
		if !isR {
			continue
		}
		for _, pa := range pr.Alts {
			at, isA := pa.Tgt.(AddrT)
			if !isA {
				continue
			}
			for _, rec := range w.fs.parseErrs {
				if rec.obj == at.Obj {
					cnd := And(a.C, pa.C)
					path = Ite(cnd, rec.path, path)
					line = Ite(cnd, rec.line, line)
					ok = Or(ok, cnd)
				}
			}
		}
	}
	return TupleV{E: []Value{StrV{T: path}, IntV{line, true}, BoolV{ok}}}
}

// ---- processes / crashes ----

// zzProcBegin(mayCrash bool): a new process starts; with mayCrash its death point is symbolic.
func (w *World) fsProcBegin(ex *Exec, c *callCtx) Value {
	fs := w.fs
	fs.proc++
	if fs.die != nil {
		fs.prevDie = fs.die
	}
	fs.reads, fs.effT = nil, nil // lock discipline is judged per process
	w.lockEvs = nil
	w.lockHeld = False
	w.lockFileSeen = false
	may := c.args[0].(BoolV).T
	if may.IsTrue() {
		fs.die = ex.nondet(fmt.Sprintf("world.die!%d", fs.proc), "nat").(TimeV).T // Int >= 0
		fs.torn = ex.nondet(fmt.Sprintf("world.torn!%d", fs.proc), "bool").(BoolV).T
		fs.tornAll = ex.nondet(fmt.Sprintf("world.tornall!%d", fs.proc), "bool").(BoolV).T
		ex.scenarioMeta[fmt.Sprintf("proc%d.firstEffect", fs.proc)] = fs.nEff
	} else {
		fs.die = nil
	}
	return nil
}

// zzProcAlive() bool: the process survived every effect it attempted so far.
func (w *World) fsProcAlive(ex *Exec, c *callCtx) Value {
	fs := w.fs
	ex.scenarioMeta[fmt.Sprintf("proc%d.effects", fs.proc)] = fs.nEff
	if fs.die == nil {
		return BoolV{True}
	}
	return BoolV{ILe(IntC(int64(fs.nEff)), fs.die)}
}

// zzLogShape(path) (exists, lastLineComplete bool, presentLines int)
func (w *World) fsLogShape(ex *Exec, c *callCtx) Value {
	fa := w.filesOf(c.args[0])
	h := &fileHandle{f: fa[0].f, alts: fa}
	n := BVC(0, 64)
	for _, x := range fa {
		for _, cl := range x.f.Cells {
			n = BVBin("bvadd", n, Ite(And(x.g, cl.Pres), BVC(1, 64), BVC(0, 64)))
		}
	}
	return TupleV{E: []Value{BoolV{altsExists(fa)}, BoolV{h.endsWithNewline()}, IntV{n, true}}}
}

// BVToInt: integer value of a small non-negative BV term (ite/const shapes fold; otherwise UF).
var bvToIntMemo = map[*Term]*Term{}

func BVToInt(t *Term) *Term {
	if t.IsConst() {
		return IntC(t.SVal())
	}
	if r, ok := bvToIntMemo[t]; ok {
		return r
	}
	var r *Term
	if t.op == "ite" {
		r = Ite(t.args[0], BVToInt(t.args[1]), BVToInt(t.args[2]))
	} else {
		r = UF("bv2int", SInt, t)
	}
	bvToIntMemo[t] = r
	return r
}

// zzFSInit(spec) string: switches the file model on and creates the initial world: a log of up
// to M arbitrary lines (blank / unparsable / event; only the last one possibly incomplete), the
// lock file and a possibly stale <log>.tmp. Returns the project root.
func (w *World) mFSInit(ex *Exec, c *callCtx) Value {
	spec, _ := litOf(c.args[0])
	hs := parseHavocSpec(spec)
	w.active = true
	w.fsInit()
	w.dirAtom = Var("world.dir", SInt)
	ex.assume(ILt(IntC(0), w.dirAtom))
	w.eventT = ex.pkg.Type("Event").Type()
	w.pending, w.written = NilRef(), NilRef()
	ergodir := UF("ergodir", SInt, w.dirAtom)
	join := func(name string) StrV { return StrV{T: UF("pathjoin", SInt, ergodir, IntC(Lits.Code(name)))} }
	logF := w.file(join("plans.jsonl"))
	logF.Exists = ex.nondet("fs.log.exists", "bool").(BoolV).T
	if hs.by["logexists"] == 1 {
		logF.Exists = True
	}
	if v, ok := hs.by["plans"]; ok {
		// fixed configuration (case split done by the harness): recorded for the native replay
		logF.Exists = BoolC(v == 1)
		ex.assume(Eq(ex.nondet("fs.log.exists", "bool").(BoolV).T, logF.Exists))
	}
	m := hs.def
	for i := 0; i < m; i++ {
		n := fmt.Sprintf("fs.log#%d", i)
		cl := &LineCell{
			Pres:     And(logF.Exists, ex.nondet(n+".pres", "bool").(BoolV).T),
			Blank:    ex.nondet(n+".blank", "bool").(BoolV).T,
			Parses:   ex.nondet(n+".parses", "bool").(BoolV).T,
			Complete: ex.nondet(n+".complete", "bool").(BoolV).T,
			Ev:       ex.havoc(n+".ev", w.eventT, hs, ""),
		}
		if hs.by["clean"] == 1 {
			// a log written by completed commands only: whole parsable lines
			cl.Blank, cl.Parses, cl.Complete = False, True, True
		}
		for _, o := range logF.Cells {
			ex.assume(Implies(And(o.Pres, cl.Pres), o.Complete)) // only the last line may be incomplete
		}
		if hs.by["nolinks"] == 1 {
			w.assumeNoLink(cl)
		}
		ex.assume(Implies(cl.Blank, cl.Complete))
		if hs.by["winv"] == 1 {
			// world invariant: complete lines are blank or parse; only a torn last line may not
			ex.assume(Implies(And(cl.Pres, cl.Complete), Or(cl.Blank, cl.Parses)))
		}
		logF.Cells = append(logF.Cells, cl)
	}
	w.logFile = logF
	for _, cl := range logF.Cells {
		cp := *cl
		w.fs.initCells = append(w.fs.initCells, &cp)
	}
	lock := w.file(join("lock"))
	lock.Exists = ex.nondet("fs.lock.exists", "bool").(BoolV).T
	w.fs.lockFile, w.fs.lockReplaced = lock, False
	tmp := w.file(StrV{T: UF("cat", SInt, join("plans.jsonl").T, IntC(Lits.Code(".tmp")))})
	tmp.Exists = ex.nondet("fs.tmp.exists", "bool").(BoolV).T
	tmp.Garbled = And(tmp.Exists, ex.nondet("fs.tmp.stale", "bool").(BoolV).T)
	w.tmpFile = tmp
	old := w.file(join("events.jsonl"))
	old.Exists = False
	if hs.by["legacy"] == 1 {
		// a store that may hold the legacy events.jsonl, plans.jsonl, both or neither
		old.Exists = ex.nondet("fs.old.exists", "bool").(BoolV).T
		if v, ok := hs.by["old"]; ok {
			ex.assume(Eq(old.Exists, BoolC(v == 1)))
			old.Exists = BoolC(v == 1)
		}
		for i := 0; i < m; i++ {
			n := fmt.Sprintf("fs.old#%d", i)
			cl := &LineCell{
				Pres:     And(old.Exists, ex.nondet(n+".pres", "bool").(BoolV).T),
				Blank:    False,
				Parses:   True,
				Complete: True,
				Ev:       ex.havoc(n+".ev", w.eventT, hs, ""),
			}
			if hs.by["nolinks"] == 1 {
				w.assumeNoLink(cl)
			}
			old.Cells = append(old.Cells, cl)
		}
	}
	dir := w.file(StrV{T: ergodir})
	dir.Exists = True
	for _, f := range w.fs.files {
		f.Exists0 = f.Exists
	}
	return StrV{T: w.dirAtom}
}

// assumeNoLink: the initial line is not a dependency edge. Units that summarise sortedKeys as
// "no keys" (a CUT that is exact only for stores without edges, because compaction enumerates
// edges through it) start from such logs.
func (w *World) assumeNoLink(cl *LineCell) {
	st := w.eventT.Underlying().(*types.Struct)
	for i := 0; i < st.NumFields(); i++ {
		if st.Field(i).Name() == "Type" {
			t := cl.Ev.(StructV).F[i].(StrV).T
			w.ex.assume(And(Neq(t, IntC(Lits.Code("link"))), Neq(t, IntC(Lits.Code("unlink")))))
		}
	}
}

// zzLockDiscipline() (writesInLock, readsFeedingWritesInLock, nonBlocking, exclusive bool):
// facts about the system calls the command(s) issued so far, decided from the real code's
// constants and control flow:
//   - every create/truncate/write/rename on the log or its temp file happens while this process
//     holds the flock;
//   - every open-for-read of the log that is followed (in program order) by such a write happens
//     while holding it (reads after the last write only report);
//   - every flock carries LOCK_NB; every flock is LOCK_EX.
func (w *World) fsLockDiscipline(ex *Exec, c *callCtx) Value {
	fs := w.fs
	isStore := func(f *FileObj) bool { return f == w.logFile || f == w.tmpFile }
	wil, ril := True, True
	for _, e := range fs.effT {
		if !isStore(e.f) {
			continue
		}
		wil = And(wil, Implies(e.g, e.inLock))
		for _, r := range fs.reads {
			if isStore(r.f) && r.idx <= e.idx {
				ril = And(ril, Implies(And(r.g, e.g), r.inLock))
			}
		}
	}
	nb, exl := True, True
	for _, l := range w.lockEvs {
		if l.Kind != "flock" {
			continue
		}
		nb = And(nb, Implies(l.G, Eq(BVBin("bvand", l.How, BVC(4, 64)), BVC(4, 64))))
		exl = And(exl, Implies(l.G, Eq(BVBin("bvand", l.How, BVC(2, 64)), BVC(2, 64))))
	}
	return TupleV{E: []Value{BoolV{wil}, BoolV{ril}, BoolV{nb}, BoolV{exl}}}
}

// zzFirstBadLine() (bad bool, line int): the specification side of readEvents over the initial
// log: lines are numbered from 1 as the scanner yields them; a line is bad when it is not blank,
// not valid JSON, and either is not the last line or the file ends with a newline.
func (w *World) fsFirstBadLine(ex *Exec, c *callCtx) Value {
	cells := w.fs.initCells
	bad := False
	line := BVC(0, 64)
	no := BVC(0, 64)
	endsNL := True
	for _, cl := range cells {
		endsNL = And(endsNL, Not(And(cl.Pres, Not(cl.Complete))))
	}
	for j, cl := range cells {
		no = BVBin("bvadd", no, Ite(cl.Pres, BVC(1, 64), BVC(0, 64)))
		later := False
		for _, o := range cells[j+1:] {
			later = Or(later, o.Pres)
		}
		isBad := And(cl.Pres, Not(cl.Blank), Not(cl.Parses), Or(later, endsNL))
		line = Ite(And(Not(bad), isBad), no, line)
		bad = Or(bad, isBad)
	}
	return TupleV{E: []Value{BoolV{bad}, IntV{line, true}}}
}

func (w *World) fsStoreEffects(ex *Exec, c *callCtx) Value {
	n := BVC(0, 64)
	for _, e := range w.fs.effT {
		if e.f == w.logFile || e.f == w.tmpFile {
			n = BVBin("bvadd", n, Ite(e.g, BVC(1, 64), BVC(0, 64)))
		}
	}
	return IntV{n, true}
}

func boxKeyEq(a, b *Box) *Term {
	keys := map[string]bool{}
	for k := range a.Keys {
		keys[k] = true
	}
	for k := range b.Keys {
		keys[k] = true
	}
	cs := []*Term{Eq(a.Malformed, b.Malformed)}
	for k := range keys {
		x, ok1 := a.Keys[k]
		y, ok2 := b.Keys[k]
		if !ok1 {
			x = IntC(0)
		}
		if !ok2 {
			y = IntC(0)
		}
		cs = append(cs, Eq(x, y))
	}
	return And(cs...)
}

func eventEq(a, b Value) *Term {
	x, y := a.(StructV), b.(StructV)
	cs := []*Term{}
	for i := range x.F {
		switch xv := x.F[i].(type) {
		case StrV:
			cs = append(cs, Eq(xv.T, y.F[i].(StrV).T))
		case RefV:
			yv := y.F[i].(RefV)
			var alts []*Term
			for _, p := range xv.Alts {
				for _, q := range yv.Alts {
					pb, ok1 := p.Tgt.(BoxT)
					qb, ok2 := q.Tgt.(BoxT)
					if ok1 && ok2 {
						alts = append(alts, And(p.C, q.C, boxKeyEq(pb.B, qb.B)))
					}
				}
			}
			cs = append(cs, Or(alts...))
		}
	}
	return And(cs...)
}

// zzHistoryPreserved(): every line of the initial log is still present in the current log with
// the same event content (order is checked only through the positions of the rewritten cells).
func (w *World) fsHistoryPreserved(ex *Exec, c *callCtx) Value {
	ok := True
	cur := w.logFile.Cells
	for j, ic := range w.fs.initCells {
		var found []*Term
		for k, cc := range cur {
			if k < j {
				continue
			}
			found = append(found, And(cc.Pres, cc.Complete, cc.Parses, eventEq(ic.Ev, cc.Ev)))
		}
		ok = And(ok, Implies(And(ic.Pres, Not(ic.Blank)), Or(found...)))
	}
	return BoolV{ok}
}
