// Symbolic value domain.
package main

import (
	"fmt"
	"go/types"
	"sort"

	"golang.org/x/tools/go/ssa"
)

type Value interface{}

type BoolV struct{ T *Term }

type IntV struct {
	T      *Term
	Signed bool
}

// StrV is a string in atom mode: an Int code. Lit != nil when it is a known constant.
type StrV struct {
	T   *Term
	Lit *string
}

// BStrV is a string / byte sequence in byte mode: symbolic length, concrete capacity.
type BStrV struct {
	Len *Term   // BV64
	B   []*Term // BV8 cells, len(B) = capacity
}

type TimeV struct{ T *Term } // Int; 0 is the zero time

type StructV struct {
	F []Value
}

type ArrayV struct {
	E []Value
}

type TupleV struct{ E []Value }

// RefV: guarded union of reference targets; nil when no alternative's condition holds.
// Conditions of distinct alternatives are mutually exclusive by construction.
type RefV struct {
	Alts []Alt
}

type Alt struct {
	C   *Term
	Tgt Target
}

type Target interface{}

type Object struct {
	id    int
	name  string
	val   Value
	typ   types.Type
	allocG *Term       // guard under which the object was allocated (it does not exist elsewhere)
	dirty map[int]bool // array cells that have been written (a clean cell's content is irrelevant)
}

func (o *Object) markDirty(i int) {
	if o.dirty == nil {
		o.dirty = map[int]bool{}
	}
	o.dirty[i] = true
}

// AddrT: pointer to (a sub-location of) an object.
type AddrT struct {
	Obj  *Object
	Path string // encoded path: ".3[2].1"
	P    []int
}

type MapEntry struct {
	Live *Term
	Key  Value // StrV or IntV
	Val  Value
}

type MapObject struct {
	id      int
	name    string
	typ     *types.Map
	entries []*MapEntry
	fwd     *MapObject // recycled into another object (see recycleMap)
	created *Term      // guard of the allocation
}

func (m *MapObject) resolve() *MapObject {
	for m.fwd != nil {
		m = m.fwd
	}
	return m
}

type MapT struct{ M *MapObject }

// SliceT: a window [Off, Off+Cap) on an array object.
//   Pres == nil : dense - the logical content is the prefix of length Len.
//   Pres != nil : sparse - physical cell Off+j belongs to the slice iff Pres[j]; the logical
//                 content is the present cells in order; Len is their number. Conditional appends
//                 create sparse slices, so every append site keeps its own cell (no position ite).
type SliceT struct {
	Arr  *Object // val is ArrayV
	Off  int
	Len  *Term // BV64
	Cap  int   // concrete (physical) capacity from Off
	Pres []*Term
}

func (s SliceT) phys() int {
	if s.Pres != nil {
		return len(s.Pres)
	}
	if s.Len.IsConst() {
		return int(s.Len.SVal())
	}
	n := s.Cap
	if ub, ok := termUpper(s.Len); ok && ub < n {
		n = ub
	}
	return n
}

// presAt: presence of physical cell j (relative to Off).
func (s SliceT) presAt(j int) *Term {
	if s.Pres != nil {
		if j < len(s.Pres) {
			return s.Pres[j]
		}
		return False
	}
	return BVCmp("bvslt", BVC(int64(j), 64), s.Len)
}

func (s SliceT) allPresent() bool {
	n := s.phys()
	for j := 0; j < n; j++ {
		if !s.presAt(j).IsTrue() {
			return false
		}
	}
	return true
}

type FuncT struct {
	Fn       *ssa.Function
	Bindings []Value
	Builtin  string
}

type IfaceT struct {
	Typ types.Type
	V   Value
}

// BoxT: a marshalled JSON object (see DESIGN 3.2): atoms per JSON key.
type BoxT struct {
	B *Box
}

// BoxSeqT: a byte buffer holding several marshalled JSON lines (built by appending boxes and
// newlines); each element is present under its own guard (appends inside guarded loop iterations).
type BoxSeqT struct {
	id    int
	Elems []SeqElem
}

type SeqElem struct {
	G *Term
	B *Box
}

type Box struct {
	id        int
	Keys      map[string]*Term // atom codes
	Malformed *Term
	// For marshalled Event lines
	IsEvent bool
}

type RangeIterV struct {
	Map   *RefV
	N     []int // per alt: entry count snapshot
	Pos   int
	Str   *BStrV
	IsStr bool
}

func NilRef() RefV { return RefV{} }

func (r RefV) IsNilTerm() *Term {
	var cs []*Term
	for _, a := range r.Alts {
		cs = append(cs, a.C)
	}
	return Not(Or(cs...))
}

func (r RefV) NonNilTerm() *Term {
	var cs []*Term
	for _, a := range r.Alts {
		cs = append(cs, a.C)
	}
	return Or(cs...)
}

func Ref1(t Target) RefV { return RefV{Alts: []Alt{{C: True, Tgt: t}}} }

func pathKey(p []int) string {
	s := ""
	for _, i := range p {
		s += fmt.Sprintf(".%d", i)
	}
	return s
}

func targetKey(t Target) string {
	switch x := t.(type) {
	case AddrT:
		return fmt.Sprintf("A%d%s", x.Obj.id, pathKey(x.P))
	case MapT:
		return fmt.Sprintf("M%d", x.M.resolve().id)
	case SliceT:
		return fmt.Sprintf("S%d+%d/%d", x.Arr.id, x.Off, x.Cap)
	case FuncT:
		if x.Fn != nil {
			return fmt.Sprintf("F%p/%d", x.Fn, len(x.Bindings))
		}
		return "FB" + x.Builtin
	case IfaceT:
		return "I" + x.Typ.String()
	case BoxT:
		return fmt.Sprintf("B%d", x.B.id)
	case BoxSeqT:
		return fmt.Sprintf("Q%d", x.id)
	case LineT:
		return fmt.Sprintf("L%d", x.id)
	}
	panic(fmt.Sprintf("targetKey %T", t))
}

// addAlt adds (c,t) to alts, merging with an existing alternative of the same target.
func addAlt(alts []Alt, c *Term, t Target) []Alt {
	if c.IsFalse() {
		return alts
	}
	k := targetKey(t)
	for i := range alts {
		if targetKey(alts[i].Tgt) != k {
			continue
		}
		switch x := t.(type) {
		case SliceT:
			y := alts[i].Tgt.(SliceT)
			if x.Pres == nil && y.Pres == nil && x.Len == y.Len {
				alts[i].C = Or(alts[i].C, c)
				return alts
			}
			// different contents over the same window: pointwise presence
			n := x.phys()
			if m := y.phys(); m > n {
				n = m
			}
			pres := make([]*Term, n)
			for j := 0; j < n; j++ {
				pres[j] = Ite(c, x.presAt(j), y.presAt(j))
			}
			y.Len = Ite(c, x.Len, y.Len)
			y.Pres = pres
			alts[i].Tgt = y
			alts[i].C = Or(alts[i].C, c)
			return alts
		case IfaceT:
			y := alts[i].Tgt.(IfaceT)
			y.V = MergeV(c, x.V, y.V)
			alts[i].Tgt = y
			alts[i].C = Or(alts[i].C, c)
			return alts
		case FuncT:
			y := alts[i].Tgt.(FuncT)
			if len(x.Bindings) > 0 {
				nb := make([]Value, len(x.Bindings))
				for j := range x.Bindings {
					nb[j] = MergeV(c, x.Bindings[j], y.Bindings[j])
				}
				y.Bindings = nb
				alts[i].Tgt = y
			}
			alts[i].C = Or(alts[i].C, c)
			return alts
		default:
			alts[i].C = Or(alts[i].C, c)
			return alts
		}
	}
	return append(alts, Alt{C: c, Tgt: t})
}

// MergeV returns ite(c, a, b) lifted to values.
func MergeV(c *Term, a, b Value) Value {
	if c.IsTrue() {
		return a
	}
	if c.IsFalse() {
		return b
	}
	switch x := a.(type) {
	case BoolV:
		return BoolV{Ite(c, x.T, b.(BoolV).T)}
	case IntV:
		y := b.(IntV)
		return IntV{Ite(c, x.T, y.T), x.Signed}
	case StrV:
		switch y := b.(type) {
		case StrV:
			if x.T == y.T {
				return x
			}
			return StrV{T: Ite(c, x.T, y.T)}
		case BStrV:
			return MergeV(c, litToBStr(x), y)
		}
	case BStrV:
		var y BStrV
		switch yy := b.(type) {
		case BStrV:
			y = yy
		case StrV:
			y = litToBStr(yy)
		}
		n := len(x.B)
		if len(y.B) > n {
			n = len(y.B)
		}
		out := BStrV{Len: Ite(c, x.Len, y.Len), B: make([]*Term, n)}
		for i := 0; i < n; i++ {
			xa, ya := BVC(0, 8), BVC(0, 8)
			if i < len(x.B) {
				xa = x.B[i]
			}
			if i < len(y.B) {
				ya = y.B[i]
			}
			out.B[i] = Ite(c, xa, ya)
		}
		return out
	case TimeV:
		return TimeV{Ite(c, x.T, b.(TimeV).T)}
	case StructV:
		y := b.(StructV)
		out := StructV{F: make([]Value, len(x.F))}
		for i := range x.F {
			out.F[i] = MergeV(c, x.F[i], y.F[i])
		}
		return out
	case ArrayV:
		y := b.(ArrayV)
		out := ArrayV{E: make([]Value, len(x.E))}
		for i := range x.E {
			out.E[i] = MergeV(c, x.E[i], y.E[i])
		}
		return out
	case TupleV:
		y := b.(TupleV)
		out := TupleV{E: make([]Value, len(x.E))}
		for i := range x.E {
			if x.E[i] == nil || y.E[i] == nil {
				if x.E[i] != nil {
					out.E[i] = x.E[i]
				} else {
					out.E[i] = y.E[i]
				}
				continue
			}
			out.E[i] = MergeV(c, x.E[i], y.E[i])
		}
		return out
	case RefV:
		y := b.(RefV)
		var alts []Alt
		nc := Not(c)
		for _, al := range y.Alts {
			alts = addAlt(alts, And(nc, al.C), al.Tgt)
		}
		for _, al := range x.Alts {
			alts = addAlt(alts, And(c, al.C), al.Tgt)
		}
		return RefV{Alts: alts}
	case *RangeIterV:
		return a
	case nil:
		return b
	}
	panic(fmt.Sprintf("MergeV: unsupported %T / %T", a, b))
}

func litToBStr(s StrV) BStrV {
	if s.Lit == nil {
		panic(unsupported("mixing symbolic atom string with byte-mode string"))
	}
	out := BStrV{Len: BVC(int64(len(*s.Lit)), 64)}
	for i := 0; i < len(*s.Lit); i++ {
		out.B = append(out.B, BVC(int64((*s.Lit)[i]), 8))
	}
	return out
}

type unsupportedErr struct{ msg string }

func unsupported(format string, args ...interface{}) unsupportedErr {
	return unsupportedErr{fmt.Sprintf(format, args...)}
}

// ---- literal atoms ----

type litTable struct {
	byStr  map[string]int64
	byCode map[int64]string
	sorted []string
}

var Lits = &litTable{byStr: map[string]int64{"": 0}, byCode: map[int64]string{0: ""}, sorted: []string{""}}

const litGap = int64(1) << 32

// Prescan assigns order-preserving codes to a batch of literals.
func (lt *litTable) Prescan(strs []string) {
	set := map[string]bool{}
	for _, s := range strs {
		set[s] = true
	}
	delete(set, "")
	var all []string
	for s := range set {
		all = append(all, s)
	}
	sort.Strings(all)
	for i, s := range all {
		c := int64(i+1) * litGap
		lt.byStr[s] = c
		lt.byCode[c] = s
	}
	lt.sorted = append([]string{""}, all...)
}

func (lt *litTable) Code(s string) int64 {
	if c, ok := lt.byStr[s]; ok {
		return c
	}
	// insert between neighbours
	i := sort.SearchStrings(lt.sorted, s)
	lo := lt.byStr[lt.sorted[i-1]]
	var hi int64
	if i < len(lt.sorted) {
		hi = lt.byStr[lt.sorted[i]]
	} else {
		hi = lo + 2*litGap
	}
	c := lo + (hi-lo)/2
	if c == lo || c == hi {
		panic("literal table exhausted between neighbours")
	}
	lt.byStr[s] = c
	lt.byCode[c] = s
	lt.sorted = append(lt.sorted, "")
	copy(lt.sorted[i+1:], lt.sorted[i:])
	lt.sorted[i] = s
	return c
}

func StrLit(s string) StrV {
	c := Lits.Code(s)
	ss := s
	return StrV{T: IntC(c), Lit: &ss}
}

// ---- zero values ----

func isTimeType(t types.Type) bool {
	if n, ok := t.(*types.Named); ok {
		o := n.Obj()
		return o.Pkg() != nil && o.Pkg().Path() == "time" && o.Name() == "Time"
	}
	return false
}

func intInfo(t types.Type) (w int, signed bool, ok bool) {
	b, isB := t.Underlying().(*types.Basic)
	if !isB {
		return 0, false, false
	}
	switch b.Kind() {
	case types.Int, types.Int64, types.UntypedInt:
		return 64, true, true
	case types.Int32, types.UntypedRune:
		return 32, true, true
	case types.Int16:
		return 16, true, true
	case types.Int8:
		return 8, true, true
	case types.Uint, types.Uint64, types.Uintptr:
		return 64, false, true
	case types.Uint32:
		return 32, false, true
	case types.Uint16:
		return 16, false, true
	case types.Uint8:
		return 8, false, true
	}
	return 0, false, false
}

func ZeroValue(t types.Type) Value {
	if isTimeType(t) {
		return TimeV{IntC(0)}
	}
	switch u := t.Underlying().(type) {
	case *types.Basic:
		switch {
		case u.Info()&types.IsBoolean != 0:
			return BoolV{False}
		case u.Info()&types.IsString != 0:
			return StrLit("")
		case u.Info()&types.IsInteger != 0:
			w, s, _ := intInfo(u)
			return IntV{BVC(0, w), s}
		case u.Kind() == types.UnsafePointer:
			return NilRef()
		case u.Kind() == types.UntypedNil:
			return NilRef()
		}
		panic(unsupported("zero value of basic type %s", t))
	case *types.Struct:
		sv := StructV{F: make([]Value, u.NumFields())}
		for i := 0; i < u.NumFields(); i++ {
			sv.F[i] = ZeroValue(u.Field(i).Type())
		}
		return sv
	case *types.Array:
		av := ArrayV{E: make([]Value, u.Len())}
		for i := range av.E {
			av.E[i] = ZeroValue(u.Elem())
		}
		return av
	case *types.Pointer, *types.Map, *types.Slice, *types.Signature, *types.Interface, *types.Chan:
		return NilRef()
	case *types.Tuple:
		tv := TupleV{E: make([]Value, u.Len())}
		for i := 0; i < u.Len(); i++ {
			tv.E[i] = ZeroValue(u.At(i).Type())
		}
		return tv
	}
	panic(unsupported("zero value of type %s", t))
}

// ---- navigation inside object values ----

func getPath(v Value, p []int) Value {
	for _, i := range p {
		switch x := v.(type) {
		case StructV:
			v = x.F[i]
		case ArrayV:
			v = x.E[i]
		default:
			panic(fmt.Sprintf("getPath into %T", v))
		}
	}
	return v
}

func setPath(v Value, p []int, f func(old Value) Value) Value {
	if len(p) == 0 {
		return f(v)
	}
	switch x := v.(type) {
	case StructV:
		nf := make([]Value, len(x.F))
		copy(nf, x.F)
		nf[p[0]] = setPath(x.F[p[0]], p[1:], f)
		return StructV{F: nf}
	case ArrayV:
		ne := make([]Value, len(x.E))
		copy(ne, x.E)
		ne[p[0]] = setPath(x.E[p[0]], p[1:], f)
		return ArrayV{E: ne}
	}
	panic(fmt.Sprintf("setPath into %T", v))
}

// EqV builds the equality term of two values of the same type.
func EqV(a, b Value) *Term {
	switch x := a.(type) {
	case BoolV:
		return Eq(x.T, b.(BoolV).T)
	case IntV:
		return Eq(x.T, b.(IntV).T)
	case StrV:
		switch y := b.(type) {
		case StrV:
			return Eq(x.T, y.T)
		case BStrV:
			return bstrEq(litToBStr(x), y)
		}
	case BStrV:
		switch y := b.(type) {
		case StrV:
			return bstrEq(x, litToBStr(y))
		case BStrV:
			return bstrEq(x, y)
		}
	case TimeV:
		return Eq(x.T, b.(TimeV).T)
	case StructV:
		y := b.(StructV)
		var cs []*Term
		for i := range x.F {
			cs = append(cs, EqV(x.F[i], y.F[i]))
		}
		return And(cs...)
	case ArrayV:
		y := b.(ArrayV)
		var cs []*Term
		for i := range x.E {
			cs = append(cs, EqV(x.E[i], y.E[i]))
		}
		return And(cs...)
	case RefV:
		y := b.(RefV)
		var cs []*Term
		cs = append(cs, And(x.IsNilTerm(), y.IsNilTerm()))
		for _, p := range x.Alts {
			for _, q := range y.Alts {
				if targetKey(p.Tgt) != targetKey(q.Tgt) {
					continue
				}
				switch pt := p.Tgt.(type) {
				case IfaceT:
					cs = append(cs, And(p.C, q.C, EqV(pt.V, q.Tgt.(IfaceT).V)))
				case SliceT:
					panic(unsupported("slice comparison"))
				default:
					cs = append(cs, And(p.C, q.C))
				}
			}
		}
		return Or(cs...)
	}
	panic(unsupported("EqV %T %T", a, b))
}

func bstrEq(x, y BStrV) *Term {
	n := len(x.B)
	if len(y.B) > n {
		n = len(y.B)
	}
	cs := []*Term{Eq(x.Len, y.Len)}
	for i := 0; i < n; i++ {
		in := BVCmp("bvult", BVC(int64(i), 64), x.Len)
		if i >= len(x.B) || i >= len(y.B) {
			// one side cannot be this long
			cs = append(cs, Not(in))
			break
		}
		cs = append(cs, Implies(in, Eq(x.B[i], y.B[i])))
	}
	return And(cs...)
}
