// Slices: dense and sparse windows over array objects (see SliceT in value.go).
package main

import (
	"sort"
	"strings"
	"go/types"
)

func (ex *Exec) sliceLen(s RefV) *Term {
	n := BVC(0, 64)
	for _, a := range s.Alts {
		switch t := a.Tgt.(type) {
		case SliceT:
			n = Ite(a.C, t.Len, n)
		case BoxT:
			n = Ite(a.C, boxLen(t.B), n)
		case BoxSeqT:
			sum := BVC(0, 64)
			for _, e := range t.Elems {
				sum = BVBin("bvadd", sum, Ite(e.G, boxLen(e.B), BVC(0, 64)))
			}
			n = Ite(a.C, sum, n)
		case LineT:
			n = Ite(a.C, Ite(t.Cell.Blank, BVC(0, 64), BVC(2, 64)), n)
		default:
			panic(unsupported("len of %T", a.Tgt))
		}
	}
	return n
}

func (ex *Exec) newArray(name string, et types.Type, n int) *Object {
	av := ArrayV{E: make([]Value, n)}
	z := ZeroValue(et)
	for i := range av.E {
		av.E[i] = z
	}
	return ex.newObject(name, types.NewArray(et, int64(n)), av)
}

func isSparse(s RefV) bool {
	for _, a := range s.Alts {
		if st, ok := a.Tgt.(SliceT); ok && st.Pres != nil {
			return true
		}
	}
	return false
}

// rankBefore: number of present cells before physical cell j (BV64 term).
func rankBefore(st SliceT, j int) *Term {
	r := BVC(0, 64)
	for k := 0; k < j; k++ {
		r = BVBin("bvadd", r, Ite(st.presAt(k), BVC(1, 64), BVC(0, 64)))
	}
	return r
}

// cellsOf lists, for logical index term idx, the candidate cells of one slice alternative.
func (ex *Exec) cellsOf(st SliceT, idx *Term, f func(cond *Term, cell int)) {
	if st.Pres == nil || ex.physIndex[st.Arr] {
		max := st.phys()
		if ex.physIndex[st.Arr] && st.Pres != nil {
			max = len(st.Pres)
		}
		if idx.IsConst() {
			j := int(idx.SVal())
			if j >= 0 && j < max {
				f(True, st.Off+j)
			}
			return
		}
		for j := 0; j < max; j++ {
			f(Eq(idx, BVC(int64(j), 64)), st.Off+j)
		}
		return
	}
	for j := 0; j < len(st.Pres); j++ {
		c := And(st.Pres[j], Eq(rankBefore(st, j), idx))
		if !c.IsFalse() {
			f(c, st.Off+j)
		}
	}
}

// appendSlice implements append(s, t...). Writes into shared arrays are guarded by fr.guard;
// the returned value is meant to be merged by the caller under the same guard.
func (ex *Exec) appendSlice(fr *Frame, s RefV, t RefV, et types.Type) RefV {
	// physical cells of t (merged over t's alternatives): value, presence
	type cell struct {
		v Value
		p *Term
	}
	var tcells []cell
	tn := 0
	for _, a := range t.Alts {
		if st, ok := a.Tgt.(SliceT); ok && st.phys() > tn {
			tn = st.phys()
		}
	}
	if tn == 0 {
		return s
	}
	z := ZeroValue(et)
	for j := 0; j < tn; j++ {
		var v Value = z
		p := False
		for _, a := range t.Alts {
			st := a.Tgt.(SliceT)
			if j >= st.phys() {
				continue
			}
			pj := And(a.C, st.presAt(j))
			if pj.IsFalse() {
				continue
			}
			v = MergeV(pj, st.Arr.val.(ArrayV).E[st.Off+j], v)
			p = Or(p, pj)
		}
		tcells = append(tcells, cell{v, p})
	}
	tLen := ex.sliceLen(t)
	tAll := true
	for _, c := range tcells {
		if !c.p.IsTrue() {
			tAll = false
		}
	}
	var out []Alt
	type src struct {
		c  *Term
		st *SliceT
	}
	var reall []src
	nilC := s.IsNilTerm()
	salts := s.Alts
	if !nilC.IsFalse() {
		// a nil slice joins the array of a sibling alternative as an all-absent window, so that
		// "not started yet" paths do not get an array of their own at every append site
		hosted := false
		for _, a := range s.Alts {
			st := a.Tgt.(SliceT)
			if st.phys()+tn <= st.Cap {
				pres := make([]*Term, st.phys())
				for j := range pres {
					pres[j] = False
				}
				salts = append(append([]Alt(nil), s.Alts...), Alt{C: nilC, Tgt: SliceT{Arr: st.Arr, Off: st.Off, Cap: st.Cap, Len: BVC(0, 64), Pres: pres}})
				hosted = true
				break
			}
		}
		if !hosted {
			reall = append(reall, src{c: nilC})
		}
	}
	for _, a := range salts {
		st := a.Tgt.(SliceT)
		ph := st.phys()
		if ph+tn <= st.Cap {
			// in place (physical room implies logical room)
			arr := st.Arr.val.(ArrayV)
			ne := make([]Value, len(arr.E))
			copy(ne, arr.E)
			g := And(fr.guard, a.C)
			for j, c := range tcells {
				cell := st.Off + ph + j
				if st.Arr.dirty[cell] {
					ne[cell] = MergeV(g, c.v, ne[cell])
				} else {
					// a cell no window has used yet: absent on the other paths, content irrelevant
					ne[cell] = c.v
					st.Arr.markDirty(cell)
				}
			}
			st.Arr.val = ArrayV{E: ne}
			ns := st
			ns.Len = BVBin("bvadd", st.Len, tLen)
			if st.Pres == nil && st.Len.IsConst() && tAll {
				// stays dense
			} else {
				pres := make([]*Term, ph+tn)
				for j := 0; j < ph; j++ {
					pres[j] = st.presAt(j)
				}
				for j, c := range tcells {
					pres[ph+j] = c.p
				}
				ns.Pres = pres
			}
			out = addAlt(out, a.C, ns)
			continue
		}
		stc := st
		reall = append(reall, src{c: a.C, st: &stc})
	}
	if len(reall) > 0 {
		maxOld := 0
		for _, r := range reall {
			if r.st != nil && r.st.phys() > maxOld {
				maxOld = r.st.phys()
			}
		}
		capNew := 2*maxOld + tn
		if capNew < ex.cfg.SliceCap {
			capNew = ex.cfg.SliceCap
		}
		arr := ex.newArray("append", et, capNew)
		ne := arr.val.(ArrayV).E
		pres := make([]*Term, maxOld+tn)
		for j := range pres {
			pres[j] = False
		}
		oldLen := BVC(0, 64)
		anyC := False
		dense := tAll
		for _, r := range reall {
			anyC = Or(anyC, r.c)
			if r.st == nil {
				continue
			}
			if !(r.st.Pres == nil && r.st.Len.IsConst()) || len(reall) > 1 {
				dense = false
			}
			oldLen = Ite(r.c, r.st.Len, oldLen)
			srcE := r.st.Arr.val.(ArrayV).E
			for j := 0; j < r.st.phys(); j++ {
				if !arr.dirty[j] {
					ne[j] = srcE[r.st.Off+j] // fresh cell: content on other paths is irrelevant
					arr.markDirty(j)
				} else {
					ne[j] = MergeV(r.c, srcE[r.st.Off+j], ne[j])
				}
				pres[j] = Ite(r.c, r.st.presAt(j), pres[j])
			}
		}
		if len(reall) > 1 {
			dense = false
		}
		// appended cells go after the longest old window (cells in between stay absent)
		for j, c := range tcells {
			ne[maxOld+j] = c.v
			pres[maxOld+j] = c.p
		}
		arr.val = ArrayV{E: ne}
		ns := SliceT{Arr: arr, Off: 0, Len: BVBin("bvadd", oldLen, tLen), Cap: capNew}
		if !dense {
			ns.Pres = pres
		}
		out = addAlt(out, anyC, ns)
	}
	return RefV{Alts: out}
}

// densify: a fresh dense copy of slice value s (logical order computed by rank). Breaks
// aliasing with the original array; used only for reads (string conversion, re-slicing).
func (ex *Exec) densify(s RefV, et types.Type) RefV {
	if !isSparse(s) {
		return s
	}
	var out []Alt
	for _, a := range s.Alts {
		st := a.Tgt.(SliceT)
		if st.Pres == nil {
			out = addAlt(out, a.C, st)
			continue
		}
		n := len(st.Pres)
		arr := ex.newArray("densified", et, n)
		ne := arr.val.(ArrayV).E
		srcE := st.Arr.val.(ArrayV).E
		for j := 0; j < n; j++ {
			rk := rankBefore(st, j)
			for pos := 0; pos <= j; pos++ {
				c := And(st.Pres[j], Eq(rk, BVC(int64(pos), 64)))
				if !c.IsFalse() {
					ne[pos] = MergeV(c, srcE[st.Off+j], ne[pos])
				}
			}
		}
		arr.val = ArrayV{E: ne}
		out = addAlt(out, a.C, SliceT{Arr: arr, Off: 0, Len: st.Len, Cap: n})
	}
	return RefV{Alts: out}
}

// boxLen: the byte length of a marshalled JSON line is at least a small constant plus the byte
// lengths of its string fields (escaping only adds). Used where code branches on buffer sizes; a
// model that needs a long line then needs long texts, which the concretiser can build.
var boxLenMemo = map[*Box]*Term{}

func boxLen(b *Box) *Term {
	if t, ok := boxLenMemo[b]; ok {
		return t
	}
	n := BVC(60, 64)
	keys := make([]string, 0, len(b.Keys))
	for k := range b.Keys {
		keys = append(keys, k)
	}
	sort.Strings(keys)
	for _, k := range keys {
		if k == "\n" || strings.HasSuffix(k, "!malformed") {
			continue
		}
		v := b.Keys[k]
		if v.sort != SInt {
			continue
		}
		n = BVBin("bvadd", n, UF("strlen", SBV(64), v))
	}
	boxLenMemo[b] = n
	return n
}

var coalesceSlices bool

// coalesce: a union of several slice values (different backing arrays, as produced by a work
// list that is re-sliced and appended to in a loop) becomes ONE slice over a fresh array whose
// cells are the guarded choice of the alternatives' cells. The copy gives up aliasing with the
// original arrays, so it is only switched on (-coalesce) for units whose code does not write
// through such aliases.
func (ex *Exec) coalesce(r RefV, et types.Type) RefV {
	if len(r.Alts) < 2 {
		return r
	}
	for _, a := range r.Alts {
		if _, ok := a.Tgt.(SliceT); !ok {
			return r
		}
	}
	r = ex.densify(r, et)
	capv := 0
	for _, a := range r.Alts {
		st := a.Tgt.(SliceT)
		ub := st.Cap
		if u, ok := termUpper(st.Len); ok && u < ub {
			ub = u
		}
		if ub > capv {
			capv = ub
		}
	}
	arr := ex.newArray("coalesced", et, capv)
	ne := arr.val.(ArrayV).E
	lenT := BVC(0, 64)
	for _, a := range r.Alts {
		st := a.Tgt.(SliceT)
		srcE := st.Arr.val.(ArrayV).E
		for j := 0; j < capv && j < st.Cap && st.Off+j < len(srcE); j++ {
			ne[j] = MergeV(a.C, srcE[st.Off+j], ne[j])
		}
		lenT = Ite(a.C, st.Len, lenT)
	}
	arr.val = ArrayV{E: ne}
	return Ref1(SliceT{Arr: arr, Off: 0, Len: lenT, Cap: capv})
}
