// Models of everything that is not ergo's code (DESIGN section 3) and harness intrinsics.
package main

import (
	"fmt"
	"path/filepath"
	"go/token"
	"go/types"
	"reflect"
	"strconv"
	"strings"

	"golang.org/x/tools/go/ssa"
)

type callCtx struct {
	fr    *Frame
	guard *Term
	pos   token.Pos
	fn    *ssa.Function
	args  []Value
	call  *ssa.CallCommon
}

type modelFn func(ex *Exec, c *callCtx) Value

const ergoPath = "github.com/sandover/ergo/internal/ergo"

var modelTable map[string]modelFn

func init() {
	modelTable = map[string]modelFn{
		"strings.TrimSpace":       mTrimSpace,
		"bytes.TrimSpace":         mBytesTrimSpace,
		"strings.HasPrefix":       mStrPred("hasprefix", strings.HasPrefix),
		"strings.HasSuffix":       mStrPred("hassuffix", strings.HasSuffix),
		"strings.Contains":        mStrPred("contains", strings.Contains),
		"strings.ContainsAny":     mStrPred("containsany", strings.ContainsAny),
		"strings.Join":            mOpaqueStr("join"),
		"strings.ToUpper":         mStrFn("toupper", strings.ToUpper),
		"strings.ToLower":         mStrFn("tolower", strings.ToLower),
		"strings.TrimPrefix":      mStrFn2("trimprefix", strings.TrimPrefix),
		"strings.TrimSuffix":      mStrFn2("trimsuffix", strings.TrimSuffix),
		"strings.ReplaceAll":      mReplaceAll,
		"strconv.Quote":           mStrFn("quote", strconv.Quote),
		"fmt.Sprintf":             mOpaqueStr("sprintf"),
		"fmt.Sprint":              mOpaqueStr("sprint"),
		"fmt.Errorf":              mErrorf,
		"errors.Is":               mErrorsIs,
		"fmt.Println":             mPrint("stdout"),
		"fmt.Printf":              mPrint("stdout"),
		"fmt.Print":               mPrint("stdout"),
		"fmt.Fprintln":            mFprint,
		"fmt.Fprintf":             mFprint,
		"fmt.Fprint":              mFprint,
		"encoding/json.Marshal":   mJSONMarshal,
		"encoding/json.Unmarshal": mJSONUnmarshal,
		"time.Now":                mTimeNow,
		"time.Parse":              mTimeParse,
		"(time.Time).Format":      mTimeFormat,
		"(time.Time).UTC":         func(ex *Exec, c *callCtx) Value { return c.args[0] },
		"(time.Time).IsZero":      func(ex *Exec, c *callCtx) Value { return BoolV{Eq(c.args[0].(TimeV).T, IntC(0))} },
		"(time.Time).After":       func(ex *Exec, c *callCtx) Value { return BoolV{ILt(c.args[1].(TimeV).T, c.args[0].(TimeV).T)} },
		"(time.Time).Before":      func(ex *Exec, c *callCtx) Value { return BoolV{ILt(c.args[0].(TimeV).T, c.args[1].(TimeV).T)} },
		"(time.Time).Equal":       func(ex *Exec, c *callCtx) Value { return BoolV{Eq(c.args[0].(TimeV).T, c.args[1].(TimeV).T)} },
		"(syscall.Errno).Error":   mOpaqueStr("errno"),
		"(*strings.Builder).WriteString": mBuilderWrite,
		"(*strings.Builder).WriteByte":   mBuilderWrite,
		"(*strings.Builder).WriteRune":   mBuilderWrite,
		"(*strings.Builder).String":      mBuilderString,
		"(*strings.Builder).Len":         mBuilderLen,
		"(*strings.Builder).Grow":        func(ex *Exec, c *callCtx) Value { return nil },
		"(*strings.Builder).Reset":       mBuilderReset,
		"strings.Repeat":           mRepeat,
		"path/filepath.Join":      mJoinGeneric,
		"sort.Slice":              mSortSlice,
		"sort.SliceStable":        mSortSliceStable,
		"sort.Strings":            mSortStrings,

		ergoPath + ".zzAssume":  mAssume,
		ergoPath + ".zzAssert":  mAssert,
		ergoPath + ".zzReach":   mReach,
		ergoPath + ".zzBool":    mNondet("bool"),
		ergoPath + ".zzString":  mNondet("atom"),
		ergoPath + ".zzInt":     mNondet("int"),
		ergoPath + ".zzTime":    mNondet("time"),
		ergoPath + ".zzHavoc":   mHavoc,
		ergoPath + ".zzBytes":   mNondetBytes,
		ergoPath + ".zzNote":    func(ex *Exec, c *callCtx) Value { return nil },
		ergoPath + ".zzItoa":    func(ex *Exec, c *callCtx) Value { return StrLit("") },
		ergoPath + ".zzBtoa":    func(ex *Exec, c *callCtx) Value { return StrLit("") },
		ergoPath + ".zzErrText": func(ex *Exec, c *callCtx) Value { return StrLit("") },
		ergoPath + ".zzRepoDir": func(ex *Exec, c *callCtx) Value {
			return ex.nondet("repoDir", "atom")
		},
		ergoPath + ".zzStageFile": func(ex *Exec, c *callCtx) Value { return TupleV{} },
		ergoPath + ".zzTouchUnder": func(ex *Exec, c *callCtx) Value { return nil },
		ergoPath + ".zzIsNative": func(ex *Exec, c *callCtx) Value { return BoolV{False} },
		ergoPath + ".zzLastStat": func(ex *Exec, c *callCtx) Value {
			if lastStat.path == nil {
				return TupleV{E: []Value{StrLit(""), BoolV{True}, BoolV{False}}}
			}
			return TupleV{E: []Value{lastStat.path, BoolV{lastStat.missing}, BoolV{lastStat.isDir}}}
		},
		"path/filepath.Clean": func(ex *Exec, c *callCtx) Value {
			if s, ok := litOf(c.args[0]); ok {
				return StrLit(filepath.Clean(s))
			}
			if a, ok := c.args[0].(StrV); ok {
				if a.T.op == "uf:cleanpath" {
					return a // Clean is idempotent
				}
				return StrV{T: UF("cleanpath", SInt, a.T)}
			}
			panic(unsupported("filepath.Clean in byte mode"))
		},
		"path/filepath.IsAbs": func(ex *Exec, c *callCtx) Value {
			if s, ok := litOf(c.args[0]); ok {
				return BoolV{BoolC(filepath.IsAbs(s))}
			}
			if b, ok := c.args[0].(BStrV); ok {
				return BoolV{bstrPred("hasprefix", b, "/")} // unix
			}
			return BoolV{UF("isabs", SBool, c.args[0].(StrV).T)}
		},
		ergoPath + ".zzStatAny": func(ex *Exec, c *callCtx) Value {
			// os.Stat answers arbitrarily: missing / regular file / directory
			modelTable["os.Stat"] = mStatAny
			modelTable["os.IsNotExist"] = func(ex *Exec, c *callCtx) Value {
				return BoolV{c.args[0].(RefV).NonNilTerm()}
			}
			return nil
		},
		ergoPath + ".zzPinRand": func(ex *Exec, c *callCtx) Value { return nil },
		ergoPath + ".zzReplayFrom": mReplayFrom,
		ergoPath + ".deriveTitleAndBodyFromLegacy": func(ex *Exec, c *callCtx) Value {
			b := c.args[0].(StrV)
			return TupleV{E: []Value{StrV{T: UF("legacytitle", SInt, b.T)}, StrV{T: UF("legacybody", SInt, b.T)}}}
		},
		ergoPath + ".shortID":   mShortID,
		ergoPath + ".newUUID":   mNewUUID,
		ergoPath + ".debugf":    func(ex *Exec, c *callCtx) Value { return nil },
		ergoPath + ".printPruneSummary": func(ex *Exec, c *callCtx) Value {
			ex.recordOutput(c, "stdout", "text", nil)
			return nil
		},
	}
	installTreeModels()
	installWidthModels()
}

// stubsOff lists ergo-level stubs a harness has switched off (e.g. byte-mode shortID).
var stubsOff = map[string]bool{}

func (ex *Exec) lookupModel(fn *ssa.Function) modelFn {
	if fn == nil {
		return nil
	}
	name := fn.String()
	if stubsOff[name] {
		return nil
	}
	if m, ok := modelTable[name]; ok {
		return m
	}
	if ex.world != nil {
		if m := ex.world.lookup(name); m != nil {
			return m
		}
	}
	if fn.Name() == "init" && fn.Pkg != ex.pkg && fn.Pkg != nil && fn.Pkg.Pkg.Path() == "unicode/utf8" {
		return nil // table-driven package whose functions are executed for real: its init (constant tables) runs
	}
	if fn.Name() == "init" && fn.Pkg != ex.pkg {
		return func(ex *Exec, c *callCtx) Value { return nil }
	}
	return nil
}

func (ex *Exec) lookupInvokeModel(t types.Type, method string) modelFn {
	if types.Identical(t, sentinelType("zzStatInfo")) && method == "IsDir" {
		return func(ex *Exec, c *callCtx) Value {
			o := c.args[0].(RefV).Alts[0].Tgt.(AddrT).Obj
			return o.val.(StructV).F[0]
		}
	}
	if ex.world != nil {
		return ex.world.lookupInvoke(t, method)
	}
	return nil
}

func errorIfaceType() types.Type { return types.Universe.Lookup("error").Type() }

// newError builds a fresh non-nil error value with an opaque message.
func (ex *Exec) newError(kind string, msg *Term) RefV {
	if msg == nil {
		msg = FreshVar("errmsg", SInt)
	}
	o := ex.newObject("error:"+kind, nil, StructV{F: []Value{StrV{T: msg}}})
	return Ref1(IfaceT{Typ: ex.errorStringPtrType(), V: Ref1(AddrT{Obj: o})})
}

var errStrPtr types.Type

func (ex *Exec) errorStringPtrType() types.Type {
	if errStrPtr != nil {
		return errStrPtr
	}
	p := ex.prog.ImportedPackage("errors")
	if p == nil {
		panic("errors package not loaded")
	}
	t := p.Type("errorString")
	errStrPtr = types.NewPointer(t.Type())
	return errStrPtr
}

// ---- strings ----

func mTrimSpace(ex *Exec, c *callCtx) Value {
	switch x := c.args[0].(type) {
	case StrV:
		if l, ok := litOf(x); ok {
			return StrLit(strings.TrimSpace(l))
		}
		if x.T.op == "ite" {
			// a choice of values (e.g. a map lookup): trim each alternative
			memo := map[*Term]*Term{}
			var walk func(t *Term) *Term
			walk = func(t *Term) *Term {
				if r, ok := memo[t]; ok {
					return r
				}
				var r *Term
				switch {
				case t.op == "ite":
					r = Ite(t.args[0], walk(t.args[1]), walk(t.args[2]))
				case t.IsConst():
					if l, ok := Lits.byCode[t.ival.Int64()]; ok {
						r = StrLit(strings.TrimSpace(l)).T
					}
				case t.op == "uf:trim":
					r = t
				}
				if r == nil {
					r = UF("trim", SInt, t)
				}
				memo[t] = r
				return r
			}
			return StrV{T: walk(x.T)}
		}
		if x.T.op == "uf:trim" {
			return x
		}
		return StrV{T: UF("trim", SInt, x.T)}
	}
	panic(unsupported("strings.TrimSpace in byte mode"))
}

func mBytesTrimSpace(ex *Exec, c *callCtx) Value {
	if ex.world != nil {
		return ex.world.bytesTrimSpace(ex, c)
	}
	panic(unsupported("bytes.TrimSpace"))
}

func mStrPred(name string, f func(a, b string) bool) modelFn {
	return func(ex *Exec, c *callCtx) Value {
		a, aok := litOf(c.args[0])
		b, bok := litOf(c.args[1])
		if aok && bok {
			return BoolV{BoolC(f(a, b))}
		}
		_, aAtom := c.args[0].(StrV)
		if aAtom && bok {
			if b == "" && name != "containsany" {
				return BoolV{True}
			}
			return BoolV{UF(name, SBool, c.args[0].(StrV).T, IntC(Lits.Code(b)))}
		}
		if bs, ok := c.args[0].(BStrV); ok && bok {
			return BoolV{bstrPred(name, bs, b)}
		}
		if aAtom {
			if sb, ok := c.args[1].(StrV); ok {
				return BoolV{UF(name, SBool, c.args[0].(StrV).T, sb.T)}
			}
		}
		panic(unsupported("strings.%s on %T,%T", name, c.args[0], c.args[1]))
	}
}

func bstrPred(name string, bs BStrV, lit string) *Term {
	n := len(lit)
	matchAt := func(off int) *Term {
		cs := []*Term{}
		for i := 0; i < n; i++ {
			if off+i >= len(bs.B) {
				return False
			}
			cs = append(cs, Eq(bs.B[off+i], BVC(int64(lit[i]), 8)))
		}
		return And(cs...)
	}
	switch name {
	case "hasprefix":
		return And(BVCmp("bvsle", BVC(int64(n), 64), bs.Len), matchAt(0))
	case "contains":
		var alts []*Term
		for off := 0; off+n <= len(bs.B); off++ {
			alts = append(alts, And(BVCmp("bvsle", BVC(int64(off+n), 64), bs.Len), matchAt(off)))
		}
		return Or(alts...)
	case "hassuffix":
		var alts []*Term
		for off := 0; off+n <= len(bs.B); off++ {
			alts = append(alts, And(Eq(bs.Len, BVC(int64(off+n), 64)), matchAt(off)))
		}
		return Or(alts...)
	case "containsany":
		var alts []*Term
		for i := 0; i < len(bs.B); i++ {
			in := BVCmp("bvslt", BVC(int64(i), 64), bs.Len)
			var any []*Term
			for j := 0; j < n; j++ {
				any = append(any, Eq(bs.B[i], BVC(int64(lit[j]), 8)))
			}
			alts = append(alts, And(in, Or(any...)))
		}
		return Or(alts...)
	}
	panic(unsupported("byte-mode strings.%s", name))
}

func mStrFn(name string, f func(string) string) modelFn {
	return func(ex *Exec, c *callCtx) Value {
		if a, ok := litOf(c.args[0]); ok {
			return StrLit(f(a))
		}
		if a, ok := c.args[0].(StrV); ok {
			return StrV{T: UF(name, SInt, a.T)}
		}
		panic(unsupported("strings.%s in byte mode", name))
	}
}

func mStrFn2(name string, f func(a, b string) string) modelFn {
	return func(ex *Exec, c *callCtx) Value {
		a, aok := litOf(c.args[0])
		b, bok := litOf(c.args[1])
		if aok && bok {
			return StrLit(f(a, b))
		}
		if sa, ok := c.args[0].(StrV); ok && bok {
			return StrV{T: UF(name, SInt, sa.T, IntC(Lits.Code(b)))}
		}
		panic(unsupported("strings.%s on %T", name, c.args[0]))
	}
}

func mReplaceAll(ex *Exec, c *callCtx) Value {
	a, aok := litOf(c.args[0])
	o, ook := litOf(c.args[1])
	n, nok := litOf(c.args[2])
	if aok && ook && nok {
		return StrLit(strings.ReplaceAll(a, o, n))
	}
	if sa, ok := c.args[0].(StrV); ok && ook && nok {
		return StrV{T: UF("replaceall", SInt, sa.T, IntC(Lits.Code(o)), IntC(Lits.Code(n)))}
	}
	panic(unsupported("strings.ReplaceAll"))
}

func mOpaqueStr(kind string) modelFn {
	return func(ex *Exec, c *callCtx) Value {
		v := FreshVar("str:"+kind, SInt)
		ex.assume(ILe(IntC(0), v))
		return StrV{T: v}
	}
}

// ---- errors / fmt ----

func mErrorf(ex *Exec, c *callCtx) Value {
	e := ex.newError("Errorf", nil)
	if f, ok := litOf(c.args[0]); ok && strings.Contains(f, "%w") {
		// remember wrapped errors (variadic slice elements that are errors)
		if vs, ok := c.args[1].(RefV); ok {
			for _, a := range vs.Alts {
				st, ok := a.Tgt.(SliceT)
				if !ok {
					continue
				}
				arr := st.Arr.val.(ArrayV)
				for i := 0; i < st.Cap; i++ {
					if r, ok := arr.E[st.Off+i].(RefV); ok {
						for _, ia := range r.Alts {
							if it, ok := ia.Tgt.(IfaceT); ok && types.Implements(it.Typ, errorIfaceType().Underlying().(*types.Interface)) {
								obj := e.Alts[0].Tgt.(IfaceT).V.(RefV).Alts[0].Tgt.(AddrT).Obj
								wrapped[obj] = r
							}
						}
					}
				}
			}
		}
	}
	return e
}

var wrapped = map[*Object]RefV{}

func (ex *Exec) errorsIs(err, target RefV, depth int) *Term {
	res := And(err.NonNilTerm(), EqV(err, target))
	if depth > 4 {
		return res
	}
	for _, a := range err.Alts {
		it, ok := a.Tgt.(IfaceT)
		if !ok {
			continue
		}
		pr, ok := it.V.(RefV)
		if !ok {
			continue
		}
		for _, pa := range pr.Alts {
			if at, ok := pa.Tgt.(AddrT); ok {
				if w, ok := wrapped[at.Obj]; ok {
					res = Or(res, And(a.C, pa.C, ex.errorsIs(w, target, depth+1)))
				}
			}
		}
	}
	return res
}

func mErrorsIs(ex *Exec, c *callCtx) Value {
	return BoolV{ex.errorsIs(c.args[0].(RefV), c.args[1].(RefV), 0)}
}

type OutEvent struct {
	G      *Term
	Stream string
	Kind   string // text | json
	Val    Value
	Pos    string
}

var outputs []OutEvent

func mPrint(stream string) modelFn {
	return func(ex *Exec, c *callCtx) Value {
		ex.recordOutput(c, stream, "text", nil)
		if c.fn != nil && c.fn.Signature.Results().Len() == 2 {
			return TupleV{E: []Value{IntV{BVC(0, 64), true}, NilRef()}}
		}
		return nil
	}
}

func (ex *Exec) recordOutput(c *callCtx, stream, kind string, v Value) {
	outputs = append(outputs, OutEvent{G: And(c.guard, Not(ex.panicked)), Stream: stream, Kind: kind, Val: v, Pos: shortPos(ex.prog.Fset.Position(c.pos).String())})
}

func (ex *Exec) streamOf(v Value) string {
	// os.Stdout / os.Stderr are loaded from extern globals: identify by object name
	if r, ok := v.(RefV); ok {
		for _, a := range r.Alts {
			if it, ok := a.Tgt.(IfaceT); ok {
				if pr, ok := it.V.(RefV); ok {
					for _, pa := range pr.Alts {
						if at, ok := pa.Tgt.(AddrT); ok {
							if strings.Contains(at.Obj.name, "Stderr") {
								return "stderr"
							}
							if strings.Contains(at.Obj.name, "Stdout") {
								return "stdout"
							}
						}
					}
				}
			}
		}
	}
	return "writer"
}

func mFprint(ex *Exec, c *callCtx) Value {
	ex.recordOutput(c, ex.streamOf(c.args[0]), "text", nil)
	return TupleV{E: []Value{IntV{BVC(0, 64), true}, NilRef()}}
}

// ---- JSON boxes ----

func jsonKey(f *types.Var, tag string) (string, bool) {
	st := reflect.StructTag(tag)
	j, ok := st.Lookup("json")
	if !ok {
		return f.Name(), true
	}
	name := strings.Split(j, ",")[0]
	if name == "-" {
		return "", false
	}
	if name == "" {
		name = f.Name()
	}
	return name, true
}

func (ex *Exec) marshalStruct(sv StructV, st *types.Struct) *Box {
	b := ex.newBox()
	for i := 0; i < st.NumFields(); i++ {
		k, ok := jsonKey(st.Field(i), st.Tag(i))
		if !ok {
			continue
		}
		switch fv := sv.F[i].(type) {
		case StrV:
			b.Keys[k] = fv.T
		case RefV:
			// nested raw message (possibly a guarded union of boxes): merge key-wise
			if len(fv.Alts) == 0 {
				continue
			}
			b.IsEvent = true
			keys := map[string]bool{}
			for _, a := range fv.Alts {
				bt, ok := a.Tgt.(BoxT)
				if !ok {
					panic(unsupported("json.Marshal of field %s holding %T", k, a.Tgt))
				}
				for kk := range bt.B.Keys {
					keys[kk] = true
				}
			}
			mal := False
			for kk := range keys {
				var acc *Term = IntC(0)
				for i, a := range fv.Alts {
					bt := a.Tgt.(BoxT)
					v, ok := bt.B.Keys[kk]
					if !ok {
						v = IntC(0)
					}
					if i == 0 {
						acc = v
					} else {
						acc = Ite(a.C, v, acc)
					}
				}
				b.Keys["data."+kk] = acc
			}
			for _, a := range fv.Alts {
				mal = Or(mal, And(a.C, a.Tgt.(BoxT).B.Malformed))
			}
			b.Keys["data.!malformed"] = Ite(mal, IntC(1), IntC(0))
		default:
			panic(unsupported("json.Marshal of field %s of %T", k, fv))
		}
	}
	return b
}

func mJSONMarshal(ex *Exec, c *callCtx) Value {
	r := c.args[0].(RefV)
	if len(r.Alts) != 1 {
		panic(unsupported("json.Marshal of interface union (%d alts)", len(r.Alts)))
	}
	it := r.Alts[0].Tgt.(IfaceT)
	st, ok := it.Typ.Underlying().(*types.Struct)
	if !ok {
		panic(unsupported("json.Marshal of %s", it.Typ))
	}
	b := ex.marshalStruct(it.V.(StructV), st)
	return TupleV{E: []Value{Ref1(BoxT{B: b}), NilRef()}}
}

func mJSONUnmarshal(ex *Exec, c *callCtx) Value {
	data := c.args[0].(RefV)
	if len(data.Alts) > 0 {
		if _, isLine := data.Alts[0].Tgt.(LineT); isLine {
			return unmarshalLine(ex, c, data)
		}
	}
	tgt := c.args[1].(RefV)
	if len(tgt.Alts) != 1 {
		panic(unsupported("json.Unmarshal target union"))
	}
	it := tgt.Alts[0].Tgt.(IfaceT)
	pt, ok := it.Typ.Underlying().(*types.Pointer)
	if !ok {
		panic(unsupported("json.Unmarshal into %s", it.Typ))
	}
	st, ok := pt.Elem().Underlying().(*types.Struct)
	if !ok {
		panic(unsupported("json.Unmarshal into %s", it.Typ))
	}
	if ex.trace {
		fmt.Printf("UNMARSHAL data alts=%d", len(data.Alts))
		for _, a := range data.Alts {
			fmt.Printf(" [%s]", a.C.Pretty(2))
		}
		fmt.Println()
	}
	bad := data.IsNilTerm() // empty input is a syntax error
	for _, a := range data.Alts {
		bt, ok := a.Tgt.(BoxT)
		if !ok {
			panic(unsupported("json.Unmarshal of %T", a.Tgt))
		}
		bad = Or(bad, And(a.C, bt.B.Malformed))
	}
	ptr := it.V.(RefV)
	for i := 0; i < st.NumFields(); i++ {
		k, ok := jsonKey(st.Field(i), st.Tag(i))
		if !ok {
			continue
		}
		if _, isStr := st.Field(i).Type().Underlying().(*types.Basic); !isStr {
			panic(unsupported("json.Unmarshal field %s of type %s", k, st.Field(i).Type()))
		}
		var val Value
		for _, a := range data.Alts {
			bt := a.Tgt.(BoxT)
			var v Value = StrLit("")
			if t, ok := bt.B.Keys[k]; ok {
				v = StrV{T: t}
			} else {
				continue
			}
			if val == nil {
				val = v // the "no alternative" case is a syntax error: nothing is stored then
			} else {
				val = MergeV(a.C, v, val)
			}
		}
		if val == nil {
			continue // key absent in every alternative: field keeps its value
		}
		// present in some alternatives only: absent ones keep the old value
		var pres []*Term
		for _, a := range data.Alts {
			if _, ok := a.Tgt.(BoxT).B.Keys[k]; ok {
				pres = append(pres, a.C)
			}
		}
		for _, pa := range ptr.Alts {
			at := pa.Tgt.(AddrT)
			cnd := And(c.guard, pa.C, Not(bad), Or(pres...))
			if at.Obj.allocG == cnd {
				cnd = True
			}
			at.Obj.val = setPath(at.Obj.val, extendPath(at.P, i), func(old Value) Value { return MergeV(cnd, val, old) })
		}
	}
	if bad.IsFalse() {
		return NilRef()
	}
	e := ex.newError("json", nil)
	return MergeV(bad, e, NilRef())
}

// ---- time ----

func mTimeNow(ex *Exec, c *callCtx) Value {
	ex.nowCount++
	v := Var(fmt.Sprintf("now!%d", ex.nowCount), SInt)
	ex.nondets = append(ex.nondets, &NondetVar{Name: v.name, Kind: "time", T: v})
	if ex.lastNow != nil {
		ex.assume(ILe(ex.lastNow, v))
	} else {
		ex.assume(ILt(IntC(0), v))
	}
	ex.lastNow = v
	return TimeV{v}
}

func mTimeFormat(ex *Exec, c *callCtx) Value {
	t := c.args[0].(TimeV).T
	return StrV{T: UF("timefmt", SInt, t)}
}

func mTimeParse(ex *Exec, c *callCtx) Value {
	s := c.args[1].(StrV)
	if s.T.op == "uf:timefmt" {
		return TupleV{E: []Value{TimeV{s.T.args[0]}, NilRef()}}
	}
	ok := UF("parseok", SBool, s.T)
	val := UF("parseval", SInt, s.T)
	if s.T.op == "ite" {
		// push through ite so that formatted branches simplify
		ok, val = parsePush(s.T)
	}
	e := ex.newError("time.Parse", nil)
	return TupleV{E: []Value{TimeV{Ite(ok, val, IntC(0))}, MergeV(ok, NilRef(), e)}}
}

var parseMemo = map[*Term][2]*Term{}

func parsePush(t *Term) (*Term, *Term) {
	if r, ok := parseMemo[t]; ok {
		return r[0], r[1]
	}
	a, b := parsePush1(t)
	parseMemo[t] = [2]*Term{a, b}
	return a, b
}

func parsePush1(t *Term) (*Term, *Term) {
	if t.op == "uf:timefmt" {
		return True, t.args[0]
	}
	if t.op == "ite" {
		o1, v1 := parsePush(t.args[1])
		o2, v2 := parsePush(t.args[2])
		return Ite(t.args[0], o1, o2), Ite(t.args[0], v1, v2)
	}
	return UF("parseok", SBool, t), UF("parseval", SInt, t)
}

// ---- sort ----

func (ex *Exec) swapCells(arr *Object, i, j int, c *Term) {
	if c.IsFalse() {
		return
	}
	e := arr.val.(ArrayV).E
	ne := make([]Value, len(e))
	copy(ne, e)
	ne[i] = MergeV(c, e[j], e[i])
	ne[j] = MergeV(c, e[i], e[j])
	arr.markDirty(i)
	arr.markDirty(j)
	arr.val = ArrayV{E: ne}
}

// Sorting is an exchange sort over the physical cells of the window: cells j < k are swapped
// when both belong to the slice and less(k, j). For a comparator that is a strict weak order
// this yields the sorted sequence of the present cells (holes stay where they are); any
// correct sort agrees with it up to the order of equal elements.
func (ex *Exec) sortWindow(st SliceT, g *Term, less func(k, j int, gg *Term) *Term) {
	n := st.phys()
	for j := 0; j < n; j++ {
		for k := j + 1; k < n; k++ {
			gg := And(g, st.presAt(j), st.presAt(k))
			if gg.IsFalse() {
				continue
			}
			ex.swapCells(st.Arr, st.Off+j, st.Off+k, And(gg, less(k, j, gg)))
		}
	}
}

func mSortSlice(ex *Exec, c *callCtx) Value {
	x := c.args[0].(RefV)
	less := c.args[1]
	if len(x.Alts) == 0 {
		return nil
	}
	it := x.Alts[0].Tgt.(IfaceT)
	sl := it.V.(RefV)
	sig := types.NewSignatureType(nil, nil, nil, types.NewTuple(types.NewVar(0, nil, "i", types.Typ[types.Int]), types.NewVar(0, nil, "j", types.Typ[types.Int])), types.NewTuple(types.NewVar(0, nil, "", types.Typ[types.Bool])), false)
	for _, a := range sl.Alts {
		st := a.Tgt.(SliceT)
		ex.physIndex[st.Arr] = true
		ex.sortWindow(st, And(c.guard, a.C), func(k, j int, gg *Term) *Term {
			// indices are physical here: the comparator's x[i] resolves to cell i
			off := 0
			r := ex.callValue(less, []Value{IntV{BVC(int64(k+off), 64), true}, IntV{BVC(int64(j+off), 64), true}}, gg, c.pos, sig)
			return r.(BoolV).T
		})
		delete(ex.physIndex, st.Arr)
	}
	return nil
}

// sort.SliceStable: equal elements keep their order. Dense slices get a bubble sort (adjacent
// compare-exchange, which is stable); sparse slices (cells with presence guards) fall back to the
// exchange network of sort.Slice, where the order of equal elements is not modelled.
func mSortSliceStable(ex *Exec, c *callCtx) Value {
	x := c.args[0].(RefV)
	less := c.args[1]
	if len(x.Alts) == 0 {
		return nil
	}
	it := x.Alts[0].Tgt.(IfaceT)
	sl := it.V.(RefV)
	if isSparse(sl) {
		ex.notes = append(ex.notes, "sort.SliceStable on a sparse slice modelled as sort.Slice (stability not modelled)")
		return mSortSlice(ex, c)
	}
	sig := types.NewSignatureType(nil, nil, nil, types.NewTuple(types.NewVar(0, nil, "i", types.Typ[types.Int]), types.NewVar(0, nil, "j", types.Typ[types.Int])), types.NewTuple(types.NewVar(0, nil, "", types.Typ[types.Bool])), false)
	for _, a := range sl.Alts {
		st := a.Tgt.(SliceT)
		n := st.phys()
		g := And(c.guard, a.C)
		ex.physIndex[st.Arr] = true
		for pass := 0; pass < n; pass++ {
			for i := 0; i+1 < n; i++ {
				gg := And(g, st.presAt(i), st.presAt(i+1))
				if gg.IsFalse() {
					continue
				}
				r := ex.callValue(less, []Value{IntV{BVC(int64(i+1), 64), true}, IntV{BVC(int64(i), 64), true}}, gg, c.pos, sig)
				ex.swapCells(st.Arr, st.Off+i, st.Off+i+1, And(gg, r.(BoolV).T))
			}
		}
		delete(ex.physIndex, st.Arr)
	}
	return nil
}

func mSortStrings(ex *Exec, c *callCtx) Value {
	sl := c.args[0].(RefV)
	for _, a := range sl.Alts {
		st := a.Tgt.(SliceT)
		ex.sortWindow(st, And(c.guard, a.C), func(k, j int, gg *Term) *Term {
			e := st.Arr.val.(ArrayV).E
			return ILt(e[st.Off+k].(StrV).T, e[st.Off+j].(StrV).T)
		})
	}
	return nil
}

// ---- intrinsics ----

func mAssume(ex *Exec, c *callCtx) Value {
	ex.assume(Implies(c.guard, c.args[0].(BoolV).T))
	return nil
}

func mAssert(ex *Exec, c *callCtx) Value {
	label, _ := litOf(c.args[1])
	cond := c.args[0].(BoolV).T
	g := And(c.guard, Not(ex.panicked))
	ex.obls = append(ex.obls, &Obligation{Label: label, Kind: "assert", Guard: g, Bad: And(g, Not(cond)),
		Assumps: append([]*Term(nil), ex.assumptions...), Pos: ex.prog.Fset.Position(c.pos).String()})
	return nil
}

func mReach(ex *Exec, c *callCtx) Value {
	label, _ := litOf(c.args[0])
	g := And(c.guard, Not(ex.panicked))
	if old, ok := ex.reachLabels[label]; ok {
		g = Or(old, g)
	}
	ex.reachLabels[label] = g
	return nil
}

func mNondet(kind string) modelFn {
	return func(ex *Exec, c *callCtx) Value {
		name, ok := litOf(c.args[0])
		if !ok {
			panic(unsupported("nondet name must be a literal"))
		}
		return ex.nondet(name, kind)
	}
}

func (ex *Exec) nondet(name, kind string) Value {
	switch kind {
	case "bool":
		v := Var(name, SBool)
		ex.nondets = append(ex.nondets, &NondetVar{name, kind, v})
		return BoolV{v}
	case "atom":
		v := Var(name, SInt)
		ex.nondets = append(ex.nondets, &NondetVar{name, kind, v})
		ex.assume(ILe(IntC(0), v))
		return StrV{T: v}
	case "int":
		v := Var(name, SBV(64))
		ex.nondets = append(ex.nondets, &NondetVar{name, kind, v})
		return IntV{v, true}
	case "time", "nat":
		v := Var(name, SInt)
		ex.nondets = append(ex.nondets, &NondetVar{name, kind, v})
		ex.assume(ILe(IntC(0), v))
		return TimeV{v}
	}
	panic(kind)
}

// zzBytes(name string, max int) string : byte-mode string of symbolic length <= max
func mNondetBytes(ex *Exec, c *callCtx) Value {
	name, _ := litOf(c.args[0])
	max := int(c.args[1].(IntV).T.SVal())
	ln := Var(name+".len", SBV(64))
	ex.nondets = append(ex.nondets, &NondetVar{name + ".len", "int", ln})
	ex.assume(And(BVCmp("bvsle", BVC(0, 64), ln), BVCmp("bvsle", ln, BVC(int64(max), 64))))
	bs := BStrV{Len: ln}
	for i := 0; i < max; i++ {
		b := Var(fmt.Sprintf("%s.b%d", name, i), SBV(8))
		ex.nondets = append(ex.nondets, &NondetVar{b.name, "byte", b})
		bs.B = append(bs.B, b)
	}
	return bs
}

var shortIDCount int

func mShortID(ex *Exec, c *callCtx) Value {
	shortIDCount++
	v := ex.nondet(fmt.Sprintf("shortid!%d", shortIDCount), "atom").(StrV)
	ex.assume(Neq(v.T, IntC(0)))
	return TupleV{E: []Value{v, NilRef()}}
}

func mNewUUID(ex *Exec, c *callCtx) Value {
	shortIDCount++
	v := ex.nondet(fmt.Sprintf("uuid!%d", shortIDCount), "atom").(StrV)
	return TupleV{E: []Value{v, NilRef()}}
}

// ---- havoc ----

type havocSpec struct {
	def       int
	by        map[string]int
	constKeys map[string]bool // map fields whose slot keys are the constants ID0, ID1, ...
	idField   string          // field of the map's pointee that equals the key (Tasks -> ID)
}

func parseHavocSpec(s string) havocSpec {
	hs := havocSpec{def: 2, by: map[string]int{}, constKeys: map[string]bool{}, idField: "ID"}
	for i, p := range strings.Split(s, ";") {
		p = strings.TrimSpace(p)
		if p == "" {
			continue
		}
		if i == 0 && !strings.Contains(p, "=") {
			hs.def, _ = strconv.Atoi(p)
			continue
		}
		kv := strings.SplitN(p, "=", 2)
		if kv[0] == "constkeys" {
			for _, f := range strings.Split(kv[1], ",") {
				hs.constKeys[f] = true
			}
			continue
		}
		n, _ := strconv.Atoi(kv[1])
		hs.by[kv[0]] = n
	}
	return hs
}

func (hs havocSpec) bound(field string) int {
	if n, ok := hs.by[field]; ok {
		return n
	}
	return hs.def
}

func mHavoc(ex *Exec, c *callCtx) Value {
	name, _ := litOf(c.args[0])
	spec, _ := litOf(c.args[2])
	hs := parseHavocSpec(spec)
	r := c.args[1].(RefV)
	it := r.Alts[0].Tgt.(IfaceT)
	pt := it.Typ.Underlying().(*types.Pointer)
	v := ex.havoc(name, pt.Elem(), hs, "")
	ptr := it.V.(RefV)
	at := ptr.Alts[0].Tgt.(AddrT)
	at.Obj.val = setPath(at.Obj.val, at.P, func(old Value) Value { return MergeV(c.guard, v, old) })
	return nil
}

func (ex *Exec) havoc(name string, t types.Type, hs havocSpec, field string) Value {
	if isTimeType(t) {
		return ex.nondet(name, "time")
	}
	if n, ok := t.(*types.Named); ok && n.Obj().Name() == "RawMessage" {
		return ex.havocBox(name)
	}
	switch u := t.Underlying().(type) {
	case *types.Basic:
		switch {
		case u.Info()&types.IsBoolean != 0:
			return ex.nondet(name, "bool")
		case u.Info()&types.IsString != 0:
			return ex.nondet(name, "atom")
		case u.Info()&types.IsInteger != 0:
			w, s, _ := intInfo(u)
			v := Var(name, SBV(w))
			ex.nondets = append(ex.nondets, &NondetVar{name, "int", v})
			return IntV{v, s}
		}
	case *types.Struct:
		sv := StructV{F: make([]Value, u.NumFields())}
		for i := 0; i < u.NumFields(); i++ {
			sv.F[i] = ex.havoc(name+"."+u.Field(i).Name(), u.Field(i).Type(), hs, u.Field(i).Name())
		}
		return sv
	case *types.Pointer:
		o := ex.newObject(name, u.Elem(), ex.havoc(name, u.Elem(), hs, field))
		if _, basic := u.Elem().Underlying().(*types.Basic); basic {
			// optional scalar (JSON input fields): symbolically nil
			isNil := Var(name+".nil", SBool)
			ex.nondets = append(ex.nondets, &NondetVar{name + ".nil", "bool", isNil})
			return MergeV(isNil, NilRef(), Ref1(AddrT{Obj: o}))
		}
		return Ref1(AddrT{Obj: o})
	case *types.Map:
		m := ex.newMap(name, u)
		n := hs.bound(field)
		for i := 0; i < n; i++ {
			en := fmt.Sprintf("%s#%d", name, i)
			live := Var(en+".live", SBool)
			ex.nondets = append(ex.nondets, &NondetVar{en + ".live", "bool", live})
			var e *MapEntry
			if hs.constKeys[field] {
				key := StrLit(fmt.Sprintf("ID%d", i))
				val := ex.havoc(en+".val", u.Elem(), hs, field)
				// the pointee's id field is the key itself
				if pt, ok := u.Elem().Underlying().(*types.Pointer); ok {
					if st, ok := pt.Elem().Underlying().(*types.Struct); ok {
						for fi := 0; fi < st.NumFields(); fi++ {
							if st.Field(fi).Name() == hs.idField {
								obj := val.(RefV).Alts[0].Tgt.(AddrT).Obj
								obj.val = setPath(obj.val, []int{fi}, func(Value) Value { return key })
							}
						}
					}
				}
				e = &MapEntry{Live: live, Key: key, Val: val}
			} else {
				e = &MapEntry{Live: live, Key: ex.havoc(en+".key", u.Key(), hs, field), Val: ex.havoc(en+".val", u.Elem(), hs, field)}
				for _, o := range m.entries {
					ex.assume(Implies(And(live, o.Live), Not(keyEq(e.Key, o.Key))))
				}
			}
			m.entries = append(m.entries, e)
		}
		return Ref1(MapT{M: m})
	case *types.Slice:
		n := hs.bound(field)
		if n == 0 {
			return NilRef()
		}
		arr := ex.newArray(name, u.Elem(), n)
		e := arr.val.(ArrayV).E
		for i := 0; i < n; i++ {
			e[i] = ex.havoc(fmt.Sprintf("%s#%d", name, i), u.Elem(), hs, field)
		}
		ln := Var(name+".len", SBV(64))
		ex.nondets = append(ex.nondets, &NondetVar{name + ".len", "int", ln})
		ex.assume(And(BVCmp("bvsle", BVC(0, 64), ln), BVCmp("bvsle", ln, BVC(int64(n), 64))))
		// len as an ite-ladder over small constants keeps downstream arithmetic foldable
		lad := BVC(0, 64)
		for k := n; k >= 1; k-- {
			lad = Ite(Eq(ln, BVC(int64(k), 64)), BVC(int64(k), 64), lad)
		}
		// an empty slice may be nil or non-nil (a JSON document can say "tasks": [] or omit the key)
		isNil := ex.nondet(name+".nil", "bool").(BoolV).T
		ex.assume(Implies(isNil, Eq(ln, BVC(0, 64))))
		return MergeV(isNil, NilRef(), Ref1(SliceT{Arr: arr, Off: 0, Len: lad, Cap: n}))
	case *types.Interface, *types.Signature:
		return NilRef()
	}
	panic(unsupported("havoc of type %s", t))
}

// all JSON keys that occur in any payload struct of the log
var boxKeys = []string{"id", "uuid", "epic_id", "state", "title", "body", "created_at", "ts", "from_id", "to_id", "type",
	"agent_id", "task_id", "summary", "path", "sha256_at_attach", "mtime_at_attach", "git_commit_at_attach"}

func (ex *Exec) havocBox(name string) Value {
	b := ex.newBox()
	for _, k := range boxKeys {
		b.Keys[k] = ex.nondet(name+"."+k, "atom").(StrV).T
	}
	m := Var(name+".malformed", SBool)
	ex.nondets = append(ex.nondets, &NondetVar{name + ".malformed", "bool", m})
	b.Malformed = m
	return Ref1(BoxT{B: b})
}

// zzReplayFrom(g, events): the real replayEvents, entered with its freshly allocated graph
// replaced by the (symbolic) pre-state g right after the entry block -- i.e. the real replay
// loop body and post-processing run from an arbitrary head state (DESIGN 2.5).
func mReplayFrom(ex *Exec, c *callCtx) Value {
	fn := ex.pkg.Func("replayEvents")
	if fn == nil {
		panic(unsupported("replayEvents not found"))
	}
	g := c.args[0].(RefV)
	if len(g.Alts) != 1 {
		panic(unsupported("zzReplayFrom: pre-state must be a single object"))
	}
	src := g.Alts[0].Tgt.(AddrT)
	if ex.entryHooks == nil {
		ex.entryHooks = map[*ssa.Function]func(fr *Frame){}
	}
	ex.entryHooks[fn] = func(fr *Frame) {
		for _, ins := range fn.Blocks[0].Instrs {
			al, ok := ins.(*ssa.Alloc)
			if !ok {
				continue
			}
			if n, ok := al.Type().(*types.Pointer).Elem().(*types.Named); ok && n.Obj().Name() == "Graph" {
				dst := fr.regs[al].(RefV).Alts[0].Tgt.(AddrT)
				dst.Obj.val = getPath(src.Obj.val, src.P)
				return
			}
		}
		panic(unsupported("zzReplayFrom: no Graph allocation in replayEvents' entry block"))
	}
	saved := c.fr.guard
	res := ex.callFunction(fn, []Value{c.args[1]}, nil, c.guard, c.pos)
	c.fr.guard = saved
	return res
}

// ---- strings.Builder: the accumulated string is kept beside the Builder object ----

var builderAcc = map[*Object]Value{}

func builderObj(v Value) *Object {
	r := v.(RefV)
	if len(r.Alts) != 1 {
		panic(unsupported("strings.Builder receiver union"))
	}
	return r.Alts[0].Tgt.(AddrT).Obj
}

func mBuilderWrite(ex *Exec, c *callCtx) Value {
	o := builderObj(c.args[0])
	acc, ok := builderAcc[o]
	if !ok {
		acc = StrLit("")
	}
	var piece Value
	switch x := c.args[1].(type) {
	case StrV, BStrV:
		piece = x
	case IntV:
		if x.T.sort.W == 8 {
			piece = BStrV{Len: BVC(1, 64), B: []*Term{x.T}}
		} else if x.T.IsConst() {
			piece = StrLit(string(rune(x.T.SVal())))
		} else {
			panic(unsupported("Builder.WriteRune of symbolic rune"))
		}
	}
	nw := ex.strBinop(token.ADD, acc, piece)
	builderAcc[o] = MergeV(c.guard, nw, acc)
	if c.fn.Signature.Results().Len() == 2 {
		return TupleV{E: []Value{IntV{ex.strLen(piece), true}, NilRef()}}
	}
	return NilRef()
}

func mBuilderString(ex *Exec, c *callCtx) Value {
	if acc, ok := builderAcc[builderObj(c.args[0])]; ok {
		return acc
	}
	return StrLit("")
}

func mBuilderLen(ex *Exec, c *callCtx) Value {
	if acc, ok := builderAcc[builderObj(c.args[0])]; ok {
		return IntV{ex.strLen(acc), true}
	}
	return IntV{BVC(0, 64), true}
}

func mBuilderReset(ex *Exec, c *callCtx) Value {
	o := builderObj(c.args[0])
	if acc, ok := builderAcc[o]; ok {
		builderAcc[o] = MergeV(c.guard, StrLit(""), acc)
	}
	return nil
}

func mRepeat(ex *Exec, c *callCtx) Value {
	s, sok := litOf(c.args[0])
	n := c.args[1].(IntV)
	// strings.Repeat panics on a negative count
	ex.addPanic(c.fr, BVCmp("bvslt", n.T, BVC(0, 64)), "negative-repeat-count", c.pos)
	if widthMode && sok && !n.T.IsConst() {
		return StrV{T: UF("repeat", SInt, IntC(Lits.Code(s)), n.T)}
	}
	if sok && n.T.IsConst() {
		return StrLit(strings.Repeat(s, int(n.T.SVal())))
	}
	if sok && len(s) == 1 {
		// repeat of a single byte with symbolic count: byte-mode string
		max := 0
		if ub, ok := termUpper(n.T); ok {
			max = ub
		} else {
			max = 64
		}
		bs := BStrV{Len: Ite(BVCmp("bvslt", n.T, BVC(0, 64)), BVC(0, 64), n.T)}
		for i := 0; i < max; i++ {
			bs.B = append(bs.B, BVC(int64(s[0]), 8))
		}
		ex.notes = append(ex.notes, "strings.Repeat with symbolic count modelled up to 64")
		return bs
	}
	return mOpaqueStr("repeat")(ex, c)
}

// unmarshalLine: json.Unmarshal(line, &event) for a line object of the file model.
func unmarshalLine(ex *Exec, c *callCtx, data RefV) Value {
	tgt := c.args[1].(RefV)
	it := tgt.Alts[0].Tgt.(IfaceT)
	ptr := it.V.(RefV)
	bad := False
	for _, a := range data.Alts {
		lt := a.Tgt.(LineT)
		bad = Or(bad, And(a.C, Not(lt.Cell.Parses)))
		for _, pa := range ptr.Alts {
			at := pa.Tgt.(AddrT)
			cnd := And(c.guard, a.C, pa.C, lt.Cell.Parses)
			if at.Obj.allocG == cnd || (len(data.Alts) == 1 && a.C.IsTrue() && at.Obj.allocG == And(c.guard, pa.C)) {
				cnd = True // fresh local: its content on other paths is irrelevant
			}
			at.Obj.val = setPath(at.Obj.val, at.P, func(old Value) Value { return MergeV(cnd, lt.Cell.Ev, old) })
		}
	}
	if bad.IsFalse() {
		return NilRef()
	}
	return MergeV(bad, ex.newError("json-line", nil), NilRef())
}

var statAnyCount int

var lastStat struct {
	path           Value
	missing, isDir *Term
}

func mStatAny(ex *Exec, c *callCtx) Value {
	statAnyCount++
	defer func() {
		lastStat.path = c.args[0]
	}()
	missing := ex.nondet(fmt.Sprintf("stat.missing!%d", statAnyCount), "bool").(BoolV).T
	isDir := ex.nondet(fmt.Sprintf("stat.isdir!%d", statAnyCount), "bool").(BoolV).T
	lastStat.missing, lastStat.isDir = missing, isDir
	o := ex.newObject("statinfo", nil, StructV{F: []Value{BoolV{isDir}}})
	info := Ref1(IfaceT{Typ: sentinelType("zzStatInfo"), V: Ref1(AddrT{Obj: o})})
	return TupleV{E: []Value{MergeV(missing, NilRef(), info), MergeV(missing, ex.newError("stat", nil), NilRef())}}
}
