// Solver driver: long-lived `z3 -in` processes, one per worker; each query is
// self-contained (reset + cone of influence), so workers are interchangeable.
package main

import (
	"bufio"
	"fmt"
	"io"
	"math/big"
	"os/exec"
	"strings"
	"sync"
	"time"
)

type SolverProc struct {
	bin   string
	args  []string
	cmd   *exec.Cmd
	in    io.WriteCloser
	out   *bufio.Reader
	seq   int
	alive bool
}

func solverCmd(name string) (string, []string) {
	switch name {
	case "z3-new":
		return "z3-new", []string{"-in"}
	case "cvc5":
		return "cvc5", []string{"--incremental", "--lang=smt2", "--produce-models"}
	default:
		return "z3", []string{"-in"}
	}
}

func (p *SolverProc) start() error {
	p.cmd = exec.Command(p.bin, p.args...)
	in, err := p.cmd.StdinPipe()
	if err != nil {
		return err
	}
	out, err := p.cmd.StdoutPipe()
	if err != nil {
		return err
	}
	p.cmd.Stderr = p.cmd.Stdout
	if err := p.cmd.Start(); err != nil {
		return err
	}
	p.in = in
	p.out = bufio.NewReaderSize(out, 1<<20)
	p.alive = true
	return nil
}

func (p *SolverProc) kill() {
	if p.cmd != nil && p.cmd.Process != nil {
		p.cmd.Process.Kill()
		p.cmd.Wait()
	}
	p.alive = false
}

type QueryResult struct {
	Status string // sat | unsat | unknown | error
	Model  map[string]string
	Time   float64
	Err    string
}

// readUntil reads lines until marker is seen; returns lines before it.
func (p *SolverProc) readUntil(marker string, deadline time.Duration) ([]string, bool) {
	type res struct {
		lines []string
		ok    bool
	}
	ch := make(chan res, 1)
	go func() {
		var lines []string
		for {
			line, err := p.out.ReadString('\n')
			line = strings.TrimRight(line, "\r\n")
			if line == marker || line == "\""+marker+"\"" {
				ch <- res{lines, true}
				return
			}
			if line != "" {
				lines = append(lines, line)
			}
			if err != nil {
				ch <- res{lines, false}
				return
			}
		}
	}()
	select {
	case r := <-ch:
		return r.lines, r.ok
	case <-time.After(deadline):
		p.kill()
		r := <-ch
		return r.lines, false
	}
}

func (p *SolverProc) Query(script string, exprs []string, timeoutMs int) QueryResult {
	t0 := time.Now()
	if !p.alive {
		if err := p.start(); err != nil {
			return QueryResult{Status: "error", Err: err.Error()}
		}
	}
	p.seq++
	marker := fmt.Sprintf("DONE-%d", p.seq)
	var sb strings.Builder
	sb.WriteString("(reset)\n")
	if p.bin != "cvc5" {
		fmt.Fprintf(&sb, "(set-option :timeout %d)\n", timeoutMs)
	} else {
		fmt.Fprintf(&sb, "(set-option :tlimit-per %d)\n(set-logic ALL)\n", timeoutMs)
	}
	sb.WriteString(script)
	sb.WriteString("(check-sat)\n")
	fmt.Fprintf(&sb, "(echo \"%s\")\n", marker)
	if _, err := io.WriteString(p.in, sb.String()); err != nil {
		p.kill()
		return QueryResult{Status: "error", Err: err.Error(), Time: time.Since(t0).Seconds()}
	}
	lines, ok := p.readUntil(marker, time.Duration(timeoutMs)*time.Millisecond+20*time.Second)
	r := QueryResult{Time: time.Since(t0).Seconds()}
	if !ok {
		r.Status = "unknown"
		r.Err = "solver died or watchdog timeout: " + strings.Join(lines, " / ")
		return r
	}
	status := ""
	for _, l := range lines {
		if strings.Contains(l, "(error") {
			r.Status = "error"
			r.Err = l
			return r
		}
		if l == "sat" || l == "unsat" || l == "unknown" || l == "timeout" {
			status = l
		}
	}
	if status == "timeout" {
		status = "unknown"
	}
	if status == "" {
		r.Status = "error"
		r.Err = "no status: " + strings.Join(lines, " / ")
		return r
	}
	r.Status = status
	if status == "unknown" {
		p.seq++
		marker = fmt.Sprintf("DONE-%d", p.seq)
		io.WriteString(p.in, fmt.Sprintf("(get-info :reason-unknown)\n(echo \"%s\")\n", marker))
		if ls, ok := p.readUntil(marker, 10*time.Second); ok {
			r.Err = strings.Join(ls, " ")
		}
	}
	if status == "sat" && len(exprs) > 0 {
		p.seq++
		marker = fmt.Sprintf("DONE-%d", p.seq)
		sb.Reset()
		sb.WriteString("(get-value (")
		for _, e := range exprs {
			sb.WriteString(e)
			sb.WriteByte(' ')
		}
		sb.WriteString("))\n")
		fmt.Fprintf(&sb, "(echo \"%s\")\n", marker)
		io.WriteString(p.in, sb.String())
		lines, ok = p.readUntil(marker, 60*time.Second)
		if ok {
			r.Model = parseModel(strings.Join(lines, "\n"))
		}
	}
	r.Time = time.Since(t0).Seconds()
	return r
}

// parseModel parses "((a 1) (b (- 2)) (c #x0f) (d true))" into name -> decimal/true/false.
func parseModel(s string) map[string]string {
	m := map[string]string{}
	toks := tokenize(s)
	// expect ( (name value) ... )
	i := 0
	var parseVal func() string
	parseVal = func() string {
		if toks[i] != "(" {
			v := toks[i]
			i++
			return normVal(v)
		}
		// ( - 5 ) or (_ bv5 8) or other
		i++
		var parts []string
		for i < len(toks) && toks[i] != ")" {
			parts = append(parts, parseVal())
		}
		i++
		if len(parts) == 2 && parts[0] == "-" {
			return "-" + parts[1]
		}
		if len(parts) == 3 && parts[0] == "_" && strings.HasPrefix(parts[1], "bv") {
			return parts[1][2:]
		}
		return "(" + strings.Join(parts, " ") + ")"
	}
	if len(toks) == 0 || toks[0] != "(" {
		return m
	}
	i = 1
	for i < len(toks) && toks[i] == "(" {
		i++
		name := toks[i]
		i++
		name = strings.Trim(name, "|")
		val := parseVal()
		if i < len(toks) && toks[i] == ")" {
			i++
		}
		m[name] = val
	}
	return m
}

func normVal(v string) string {
	if strings.HasPrefix(v, "#x") {
		b, _ := new(big.Int).SetString(v[2:], 16)
		return b.String()
	}
	if strings.HasPrefix(v, "#b") {
		b, _ := new(big.Int).SetString(v[2:], 2)
		return b.String()
	}
	return v
}

func tokenize(s string) []string {
	var toks []string
	i := 0
	for i < len(s) {
		c := s[i]
		switch {
		case c == '(' || c == ')':
			toks = append(toks, string(c))
			i++
		case c == ' ' || c == '\n' || c == '\t' || c == '\r':
			i++
		case c == '|':
			j := i + 1
			for j < len(s) && s[j] != '|' {
				j++
			}
			toks = append(toks, s[i:j+1])
			i = j + 1
		default:
			j := i
			for j < len(s) && !strings.ContainsRune("() \n\t\r", rune(s[j])) {
				j++
			}
			toks = append(toks, s[i:j])
			i = j
		}
	}
	return toks
}

// ---- pool ----

type SolverPool struct {
	name  string
	procs chan *SolverProc
	mu    sync.Mutex
	Stats struct {
		Queries int
		Time    float64
		MaxTime float64
	}
}

func NewSolverPool(name string, n int) *SolverPool {
	bin, args := solverCmd(name)
	sp := &SolverPool{name: name, procs: make(chan *SolverProc, n)}
	for i := 0; i < n; i++ {
		sp.procs <- &SolverProc{bin: bin, args: args}
	}
	return sp
}

func (sp *SolverPool) Query(script string, exprs []string, timeoutMs int) QueryResult {
	p := <-sp.procs
	r := p.Query(script, exprs, timeoutMs)
	sp.procs <- p
	sp.mu.Lock()
	sp.Stats.Queries++
	sp.Stats.Time += r.Time
	if r.Time > sp.Stats.MaxTime {
		sp.Stats.MaxTime = r.Time
	}
	sp.mu.Unlock()
	return r
}

func (sp *SolverPool) Close() {
	close(sp.procs)
	for p := range sp.procs {
		if p.alive {
			p.in.Close()
			p.kill()
		}
	}
}
