// World model: files, lock, stdout (DESIGN 3.4). Filled in incrementally.
package main

import "go/types"

type World struct {
	ex *Exec
}

func NewWorld(ex *Exec) *World { return &World{ex: ex} }

func (w *World) lookup(name string) modelFn { return nil }

func (w *World) lookupInvoke(t types.Type, method string) modelFn { return nil }

func (w *World) bytesTrimSpace(ex *Exec, c *callCtx) Value { panic(unsupported("bytes.TrimSpace")) }
