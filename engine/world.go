// World model (DESIGN 3.4). Two layers:
//   L0: system calls used by withLock (syscall.Open/Flock/Close, ensureFileExists) so that the
//       real withLock is executed;
//   L1: ergo's storage and terminal functions (loadGraph, readEvents, appendEvents,
//       replaceEventsAtomically, writeJSON, ParseTaskInput, ...) replaced by stubs over a symbolic
//       store graph. Every stub hit is reported in the evidence (models_hit).
package main

import (
	"path/filepath"
	"fmt"
	"go/types"
	"strings"

	"golang.org/x/tools/go/ssa"
)

type LockEv struct {
	Unowned bool // the descriptor belongs to an *os.File (closed by its finalizer), not to withLock
	G    *Term
	How  *Term // BV64 flag word passed to flock
	Busy *Term
	Kind string // flock | unlock | open | close
}

type WriteEv struct {
	G      *Term
	Kind   string // append | replace
	N      *Term  // number of events
	InLock *Term  // was a lock held (by this process) at the time
}

type World struct {
	ex        *Exec
	active    bool
	cur       *AddrT // canonical store graph (never handed out)
	token     *Object
	pending   RefV // events written since the last load ([]Event)
	written   RefV // all events written by the command(s) under test ([]Event)
	lockEvs   []LockEv
	writeEvs  []WriteEv
	lockHeld  *Term
	nLock     int
	eventT    types.Type
	replaced  *Term // a replace (compact) happened
	loads     int
	models    map[string]modelFn
	dirAtom   *Term
	busyCount int

	fs            *FS
	logFile       *FileObj
	tmpFile       *FileObj
	stdinText     Value
	stdinPlan     Value
	stdinPiped    Value
	stdinTask     Value
	stdinParseErr *Term
	lastReplayErr Value
	historyLost   *Term
	replacedWith  Value
	lockFileSeen  bool
}

func NewWorld(ex *Exec) *World {
	w := &World{ex: ex, lockHeld: False, replaced: False, historyLost: False}
	w.models = map[string]modelFn{
		ergoPath + ".zzWorldInit":  w.mWorldInit,
		ergoPath + ".zzWritten":    w.mWritten,
		ergoPath + ".zzPost":       w.mPost,
		ergoPath + ".zzOutCount":   w.mOutCount,
		ergoPath + ".zzLockStats":  w.mLockStats,
		ergoPath + ".zzStdinTask":  w.mStdinTask,
		ergoPath + ".zzStdinPlan":  func(ex *Exec, c *callCtx) Value { w.stdinPlan = c.args[0]; w.stdinParseErr = c.args[1].(BoolV).T; return nil },
		ergoPath + ".ParsePlanInput": w.mParsePlanInput,
		ergoPath + ".zzStdinText":  func(ex *Exec, c *callCtx) Value { w.stdinText = c.args[0]; return nil },
		ergoPath + ".zzLastJSON":   w.mLastJSON,
		ergoPath + ".zzOutStr":     w.mOutStr,
		ergoPath + ".zzStdinPiped": func(ex *Exec, c *callCtx) Value { w.stdinPiped = c.args[0]; return nil },
		"syscall.Open":            w.mSysOpen,
		"syscall.Flock":           w.mFlock,
		"syscall.Close":           func(ex *Exec, c *callCtx) Value { return NilRef() },
		"os.IsNotExist":           w.mIsNotExist,
		"path/filepath.Join":      w.mJoin,
		"path/filepath.Dir": func(ex *Exec, c *callCtx) Value {
			if t := c.args[0].(StrV).T; t.op == "uf:pathjoin" {
				return StrV{T: t.args[0]} // Dir(Join(a, leaf)) = a
			}
			return strUF1("pathdir", c.args[0])
		},
		"path/filepath.Base":      func(ex *Exec, c *callCtx) Value { return strUF1("pathbase", c.args[0]) },
		ergoPath + ".ensureFileExists": w.mEnsureFile,
		ergoPath + ".ergoDir":     w.mErgoDir,
		ergoPath + ".getEventsPath": func(ex *Exec, c *callCtx) Value { return strUF1("eventspath", c.args[0]) },
		ergoPath + ".loadGraph":   w.mLoadGraph,
		ergoPath + ".readEvents":  w.mReadEvents,
		ergoPath + ".replayEvents": w.mReplayEvents,
		ergoPath + ".appendEvents": w.mAppendEvents,
		ergoPath + ".appendEventsAtomically": w.mAppendAtomically,
		ergoPath + ".replaceEventsAtomically": w.mReplace,
		ergoPath + ".writeJSON":   w.mWriteJSON,
		ergoPath + ".stdinIsPiped": w.mStdinPiped,
		ergoPath + ".stdoutIsTTY": func(ex *Exec, c *callCtx) Value { return ex.nondet("world.stdoutIsTTY", "bool") },
		ergoPath + ".getTerminalWidth": func(ex *Exec, c *callCtx) Value { return ex.nondet("world.termWidth", "int") },
		ergoPath + ".ParseTaskInput": w.mParseTaskInput,
		"io.ReadAll": w.mReadBody, // the real readBodyFromStdinOrEmpty runs over this: stdin yields the scenario's text
		ergoPath + ".validateResultPath": w.mValidateResultPath,
		ergoPath + ".captureResultEvidence": w.mCaptureEvidence,
		ergoPath + ".deriveFileURL": func(ex *Exec, c *callCtx) Value {
			return StrV{T: UF("fileurl", SInt, c.args[0].(StrV).T, c.args[1].(StrV).T)}
		},
	}
	return w
}

func strUF1(name string, v Value) Value {
	s := v.(StrV)
	return StrV{T: UF(name, SInt, s.T)}
}

func (w *World) lookup(name string) modelFn {
	if !w.active {
		// intrinsics that switch the world on are always visible
		if name == ergoPath+".zzWorldInit" {
			return w.models[name]
		}
		if name == ergoPath+".zzFSInit" {
			return w.mFSInit
		}
		return nil
	}
	return w.models[name]
}

func (w *World) lookupInvoke(t types.Type, method string) modelFn { return w.lookupInvokeFS(t, method) }

func (w *World) bytesTrimSpace(ex *Exec, c *callCtx) Value {
	if r, ok := c.args[0].(RefV); ok && len(r.Alts) > 0 {
		if _, isLine := r.Alts[0].Tgt.(LineT); isLine {
			return r // a line object: blankness is a flag, trimming keeps the object
		}
	}
	panic(unsupported("bytes.TrimSpace"))
}

// ---- deep copy of a symbolic heap structure ----

type copier struct {
	ex   *Exec
	objs map[*Object]*Object
	maps map[*MapObject]*MapObject
}

func (cp *copier) val(v Value) Value {
	switch x := v.(type) {
	case StructV:
		out := StructV{F: make([]Value, len(x.F))}
		for i := range x.F {
			out.F[i] = cp.val(x.F[i])
		}
		return out
	case ArrayV:
		out := ArrayV{E: make([]Value, len(x.E))}
		for i := range x.E {
			out.E[i] = cp.val(x.E[i])
		}
		return out
	case RefV:
		out := RefV{Alts: make([]Alt, len(x.Alts))}
		for i, a := range x.Alts {
			out.Alts[i] = Alt{C: a.C, Tgt: cp.tgt(a.Tgt)}
		}
		return out
	}
	return v
}

func (cp *copier) obj(o *Object) *Object {
	if n, ok := cp.objs[o]; ok {
		return n
	}
	n := cp.ex.newObject(o.name+"'", o.typ, nil)
	cp.objs[o] = n
	n.val = cp.val(o.val)
	return n
}

func (cp *copier) tgt(t Target) Target {
	switch x := t.(type) {
	case AddrT:
		return AddrT{Obj: cp.obj(x.Obj), P: x.P}
	case MapT:
		xm := x.M.resolve()
		if n, ok := cp.maps[xm]; ok {
			return MapT{M: n}
		}
		n := cp.ex.newMap(xm.name+"'", xm.typ)
		cp.maps[xm] = n
		for _, e := range xm.entries {
			n.entries = append(n.entries, &MapEntry{Live: e.Live, Key: e.Key, Val: cp.val(e.Val)})
		}
		return MapT{M: n}
	case SliceT:
		return SliceT{Arr: cp.obj(x.Arr), Off: x.Off, Len: x.Len, Cap: x.Cap, Pres: x.Pres}
	case IfaceT:
		return IfaceT{Typ: x.Typ, V: cp.val(x.V)}
	}
	return t
}

func (ex *Exec) deepCopy(v Value) Value {
	cp := &copier{ex: ex, objs: map[*Object]*Object{}, maps: map[*MapObject]*MapObject{}}
	return cp.val(v)
}

// ---- store ----

func (w *World) mWorldInit(ex *Exec, c *callCtx) Value {
	g := c.args[0].(RefV)
	at := g.Alts[0].Tgt.(AddrT)
	cpy := ex.deepCopy(g).(RefV)
	cat := cpy.Alts[0].Tgt.(AddrT)
	_ = at
	w.cur = &cat
	w.active = true
	w.token = ex.newObject("store-events-token", nil, ArrayV{})
	w.pending = NilRef()
	w.written = NilRef()
	w.dirAtom = Var("world.dir", SInt)
	ex.assume(ILt(IntC(0), w.dirAtom))
	ev := ex.pkg.Type("Event")
	w.eventT = ev.Type()
	return StrV{T: w.dirAtom}
}

func (w *World) mErgoDir(ex *Exec, c *callCtx) Value {
	return TupleV{E: []Value{StrV{T: UF("ergodir", SInt, w.dirAtom)}, NilRef()}}
}

func mJoinGeneric(ex *Exec, c *callCtx) Value {
	if sl, ok := c.args[0].(RefV); ok && len(sl.Alts) == 1 {
		if st, ok := sl.Alts[0].Tgt.(SliceT); ok && st.Len.IsConst() {
			arr := st.Arr.val.(ArrayV)
			for i := 0; i < int(st.Len.SVal()); i++ {
				if _, isB := arr.E[st.Off+i].(BStrV); isB {
					// byte-mode component: the joined path is only handed to the os.Stat stub
					v := FreshVar("str:joined", SInt)
					ex.assume(ILt(IntC(0), v))
					return StrV{T: v}
				}
			}
		}
	}
	if sl, ok := c.args[0].(RefV); ok && len(sl.Alts) == 1 {
		if st, ok := sl.Alts[0].Tgt.(SliceT); ok && st.Len.IsConst() {
			arr := st.Arr.val.(ArrayV)
			var parts []string
			all := true
			for i := 0; i < int(st.Len.SVal()); i++ {
				l, ok := litOf(arr.E[st.Off+i])
				if !ok {
					all = false
					break
				}
				parts = append(parts, l)
			}
			if all {
				return StrLit(filepath.Join(parts...))
			}
			if treeOn && int(st.Len.SVal()) == 2 {
				// Join(<choice of literals>, literal)
				if b, ok := litOf(arr.E[st.Off+1]); ok {
					if r, ok := overLits(arr.E[st.Off], func(l string) *Term { return StrLit(filepath.Join(l, b)).T }); ok {
						return StrV{T: r}
					}
				}
			}
		}
	}
	if ex.world != nil && ex.world.active {
		return ex.world.mJoin(ex, c)
	}
	sl := c.args[0].(RefV)
	st := sl.Alts[0].Tgt.(SliceT)
	arr := st.Arr.val.(ArrayV)
	n := int(st.Len.SVal())
	acc := arr.E[st.Off].(StrV).T
	for i := 1; i < n; i++ {
		acc = UF("pathjoin", SInt, acc, arr.E[st.Off+i].(StrV).T)
	}
	return StrV{T: acc}
}

func (w *World) mJoin(ex *Exec, c *callCtx) Value {
	// variadic slice of atoms -> nested UF
	sl := c.args[0].(RefV)
	st := sl.Alts[0].Tgt.(SliceT)
	arr := st.Arr.val.(ArrayV)
	n := int(st.Len.SVal())
	acc := arr.E[st.Off].(StrV).T
	for i := 1; i < n; i++ {
		nx := arr.E[st.Off+i].(StrV).T
		if acc == w.dirAtom && w.dirAtom != nil && nx == IntC(Lits.Code(".ergo")) {
			acc = UF("ergodir", SInt, w.dirAtom) // <project root>/.ergo is the store directory
			continue
		}
		acc = UF("pathjoin", SInt, acc, nx)
	}
	return StrV{T: acc}
}

// applyPending replays the events written since the last load into the canonical store
// with the real replay loop (loop-head entry).
func (w *World) applyPending(ex *Exec, c *callCtx) {
	if len(w.pending.Alts) == 0 {
		return
	}
	fn := ex.pkg.Func("replayEvents")
	pend := w.pending
	w.pending = NilRef()
	src := *w.cur
	w.installHook(fn, src)
	saved := c.fr.guard
	res := ex.callFunction(fn, []Value{pend}, nil, True, c.pos)
	c.fr.guard = saved
	tv := res.(TupleV)
	ng := tv.E[0].(RefV)
	// keep the canonical object: replay produced a new Graph struct sharing the same maps (plus fresh RDeps)
	if len(ng.Alts) > 0 {
		nat := ng.Alts[len(ng.Alts)-1].Tgt.(AddrT)
		w.cur = &nat
	}
	w.lastReplayErr = tv.E[1]
}

func (w *World) installHook(fn *ssa.Function, src AddrT) {
	ex := w.ex
	if ex.entryHooks == nil {
		ex.entryHooks = map[*ssa.Function]func(fr *Frame){}
	}
	ex.entryHooks[fn] = func(fr *Frame) {
		for _, ins := range fn.Blocks[0].Instrs {
			al, ok := ins.(*ssa.Alloc)
			if !ok {
				continue
			}
			if n, ok := al.Type().(*types.Pointer).Elem().(*types.Named); ok && n.Obj().Name() == "Graph" {
				dst := fr.regs[al].(RefV).Alts[0].Tgt.(AddrT)
				copyGraphFields(n, dst, src)
				return
			}
		}
		panic(unsupported("no Graph allocation in replayEvents' entry block"))
	}
}

// copyGraphFields: every field except RDeps (which replay rebuilds from empty) is taken from src.
func copyGraphFields(n *types.Named, dst, src AddrT) {
	st := n.Underlying().(*types.Struct)
	sv := getPath(src.Obj.val, src.P).(StructV)
	dv := getPath(dst.Obj.val, dst.P).(StructV)
	nf := make([]Value, len(dv.F))
	copy(nf, dv.F)
	for i := 0; i < st.NumFields(); i++ {
		if st.Field(i).Name() == "RDeps" {
			continue
		}
		nf[i] = sv.F[i]
	}
	dst.Obj.val = setPath(dst.Obj.val, dst.P, func(Value) Value { return StructV{F: nf} })
}

func (w *World) mLoadGraph(ex *Exec, c *callCtx) Value {
	w.applyPending(ex, c)
	w.loads++
	cp := ex.deepCopy(Ref1(*w.cur))
	return TupleV{E: []Value{cp, NilRef()}}
}

func (w *World) mReadEvents(ex *Exec, c *callCtx) Value {
	w.applyPending(ex, c)
	return TupleV{E: []Value{Ref1(SliceT{Arr: w.token, Off: 0, Len: BVC(0, 64), Cap: 0}), NilRef()}}
}

func (w *World) isToken(v Value) bool {
	r, ok := v.(RefV)
	if !ok || len(r.Alts) != 1 {
		return false
	}
	st, ok := r.Alts[0].Tgt.(SliceT)
	return ok && st.Arr == w.token
}

func (w *World) mReplayEvents(ex *Exec, c *callCtx) Value {
	if w.isToken(c.args[0]) {
		cp := ex.deepCopy(Ref1(*w.cur))
		return TupleV{E: []Value{cp, NilRef()}}
	}
	saved := c.fr.guard
	res := ex.callFunction(c.fn, c.args, nil, c.guard, c.pos)
	c.fr.guard = saved
	return res
}

func (w *World) record(ex *Exec, c *callCtx, events RefV, kind string) {
	et := w.eventT
	saved := c.fr.guard
	c.fr.guard = c.guard
	np := ex.appendSlice(c.fr, w.pending, events, et)
	w.pending = MergeV(c.guard, np, w.pending).(RefV)
	nw := ex.appendSlice(c.fr, w.written, events, et)
	w.written = MergeV(c.guard, nw, w.written).(RefV)
	c.fr.guard = saved
	w.writeEvs = append(w.writeEvs, WriteEv{G: And(c.guard, Not(ex.panicked)), Kind: kind, N: ex.sliceLen(events), InLock: w.lockHeld})
}

func (w *World) mAppendEvents(ex *Exec, c *callCtx) Value {
	w.record(ex, c, c.args[1].(RefV), "append")
	return NilRef()
}

func (w *World) mAppendAtomically(ex *Exec, c *callCtx) Value {
	if !w.isToken(c.args[1]) {
		ex.notes = append(ex.notes, "appendEventsAtomically: existing events are not the store's own content")
		w.historyLost = Or(w.historyLost, c.guard)
	}
	w.record(ex, c, c.args[2].(RefV), "append-atomic")
	return NilRef()
}

func (w *World) mReplace(ex *Exec, c *callCtx) Value {
	// compact: the store becomes the replay of the given events from an empty graph
	events := c.args[1].(RefV)
	w.applyPending(ex, c)
	fn := ex.pkg.Func("replayEvents")
	saved := c.fr.guard
	res := ex.callFunction(fn, []Value{events}, nil, c.guard, c.pos)
	c.fr.guard = saved
	tv := res.(TupleV)
	ng := tv.E[0].(RefV)
	if len(ng.Alts) == 0 {
		panic(unsupported("replaceEventsAtomically: replay of the new content always fails"))
	}
	if !c.guard.IsTrue() {
		panic(unsupported("replaceEventsAtomically under a non-trivial guard"))
	}
	nat := ng.Alts[len(ng.Alts)-1].Tgt.(AddrT)
	w.cur = &nat
	w.lastReplayErr = tv.E[1]
	w.replaced = Or(w.replaced, c.guard)
	w.replacedWith = events
	w.writeEvs = append(w.writeEvs, WriteEv{G: And(c.guard, Not(ex.panicked)), Kind: "replace", N: ex.sliceLen(events), InLock: w.lockHeld})
	return NilRef()
}

func (w *World) mWritten(ex *Exec, c *callCtx) Value { return w.written }

// zzPost() (*Graph, error): the store as a later reader sees it.
func (w *World) mPost(ex *Exec, c *callCtx) Value {
	w.applyPending(ex, c)
	cp := ex.deepCopy(Ref1(*w.cur))
	var e Value = NilRef()
	if w.lastReplayErr != nil {
		e = w.lastReplayErr
	}
	return TupleV{E: []Value{cp, e}}
}

// ---- lock (L0) ----

func (w *World) mSysOpen(ex *Exec, c *callCtx) Value {
	w.nLock++
	missing := ex.nondet(fmt.Sprintf("world.lock.missing!%d", w.nLock), "bool").(BoolV).T
	if w.lockFileSeen {
		missing = False // second open after ensureFileExists
	}
	w.lockFileSeen = true
	enoent := Ref1(IfaceT{Typ: w.errnoType(), V: IntV{BVC(2, 64), false}})
	fd := IntV{BVC(int64(100+w.nLock), 64), true}
	return TupleV{E: []Value{fd, MergeV(missing, enoent, NilRef())}}
}

func (w *World) errnoType() types.Type {
	p := w.ex.prog.ImportedPackage("syscall")
	return p.Type("Errno").Type()
}

func (w *World) mIsNotExist(ex *Exec, c *callCtx) Value {
	e := c.args[0].(RefV)
	res := False
	for _, a := range e.Alts {
		if it, ok := a.Tgt.(IfaceT); ok && types.Identical(it.Typ, w.errnoType()) {
			res = Or(res, And(a.C, Eq(it.V.(IntV).T, BVC(2, 64))))
		}
	}
	return BoolV{res}
}

func (w *World) mEnsureFile(ex *Exec, c *callCtx) Value {
	return NilRef()
}

func (w *World) mFlock(ex *Exec, c *callCtx) Value {
	how := c.args[1].(IntV).T
	if how.IsConst() && how.SVal() == 8 { // LOCK_UN
		w.lockEvs = append(w.lockEvs, LockEv{G: c.guard, How: how, Kind: "unlock"})
		w.lockHeld = And(w.lockHeld, Not(c.guard))
		return NilRef()
	}
	w.busyCount++
	busy := ex.nondet(fmt.Sprintf("world.lock.busy!%d", w.busyCount), "bool").(BoolV).T
	unowned := false
	if fdv, ok := c.args[0].(IntV); ok && fdv.T.IsConst() && fdv.T.SVal() >= 500 {
		unowned = true
	}
	w.lockEvs = append(w.lockEvs, LockEv{G: And(c.guard, Not(ex.panicked)), How: how, Busy: busy, Kind: "flock", Unowned: unowned})
	w.lockHeld = Or(w.lockHeld, And(c.guard, Not(busy)))
	ewould := Ref1(IfaceT{Typ: w.errnoType(), V: IntV{BVC(11, 64), false}})
	return MergeV(busy, ewould, NilRef())
}

// zzLockStats() (attempts int, nonblocking bool, exclusive bool)
func (w *World) mLockStats(ex *Exec, c *callCtx) Value {
	n := BVC(0, 64)
	nb, exl := True, True
	for _, l := range w.lockEvs {
		if l.Kind != "flock" {
			continue
		}
		n = BVBin("bvadd", n, Ite(l.G, BVC(1, 64), BVC(0, 64)))
		nb = And(nb, Implies(l.G, Eq(BVBin("bvand", l.How, BVC(4, 64)), BVC(4, 64))))
		exl = And(exl, Implies(l.G, Eq(BVBin("bvand", l.How, BVC(2, 64)), BVC(2, 64))))
	}
	return TupleV{E: []Value{IntV{n, true}, BoolV{nb}, BoolV{exl}}}
}

// ---- terminal / stdin ----

func (w *World) mWriteJSON(ex *Exec, c *callCtx) Value {
	ex.recordOutput(c, ex.streamOf(c.args[0]), "json", c.args[1])
	return NilRef()
}

// zzOutCount(stream, kind string) int
func (w *World) mOutCount(ex *Exec, c *callCtx) Value {
	stream, _ := litOf(c.args[0])
	kind, _ := litOf(c.args[1])
	n := BVC(0, 64)
	for _, o := range outputs {
		if (stream == "" || o.Stream == stream) && (kind == "" || o.Kind == kind) {
			n = BVBin("bvadd", n, Ite(o.G, BVC(1, 64), BVC(0, 64)))
		}
	}
	return IntV{n, true}
}

// zzLastJSON() any : the value of the last JSON document written to stdout (merged over paths)
func (w *World) mLastJSON(ex *Exec, c *callCtx) Value {
	var acc Value = NilRef()
	for _, o := range outputs {
		if o.Kind == "json" && o.Stream == "stdout" {
			acc = MergeV(o.G, o.Val, acc)
		}
	}
	return acc
}

func (w *World) mStdinPiped(ex *Exec, c *callCtx) Value {
	if w.stdinPiped != nil {
		return w.stdinPiped
	}
	return ex.nondet("world.stdinIsPiped", "bool")
}

// zzStdinTask(in *TaskInput, parseError bool): what ParseTaskInput will yield
func (w *World) mStdinTask(ex *Exec, c *callCtx) Value {
	w.stdinTask = c.args[0]
	w.stdinParseErr = c.args[1].(BoolV).T
	return nil
}

func (w *World) mParseTaskInput(ex *Exec, c *callCtx) Value {
	if w.stdinTask == nil {
		panic(unsupported("ParseTaskInput without zzStdinTask"))
	}
	sig := c.fn.Signature
	vt := sig.Results().At(1).Type()
	verr := ex.havoc("world.stdin.verr", vt, havocSpec{def: 0, by: map[string]int{}, constKeys: map[string]bool{}}, "")
	// nothing to parse when stdin is a terminal ("no input: pipe JSON to stdin")
	perr := Or(w.stdinParseErr, Not(w.mStdinPiped(ex, c).(BoolV).T))
	return TupleV{E: []Value{MergeV(perr, NilRef(), w.stdinTask), MergeV(perr, verr, NilRef())}}
}

func (w *World) mReadBody(ex *Exec, c *callCtx) Value {
	if w.stdinText == nil {
		panic(unsupported("io.ReadAll(os.Stdin) without zzStdinText"))
	}
	return TupleV{E: []Value{w.stdinText, NilRef()}}
}

// ---- result files (L1; the byte-level check of validateResultPath is C20's B harness) ----

func (w *World) mValidateResultPath(ex *Exec, c *callCtx) Value {
	bad := ex.nondet("world.resultpath.bad", "bool").(BoolV).T
	// the empty path cleans to "." (a directory) and is always rejected by the real function
	bad = Or(bad, Eq(c.args[1].(StrV).T, IntC(0)))
	clean := StrV{T: UF("cleanpath", SInt, c.args[1].(StrV).T)}
	return TupleV{E: []Value{MergeV(bad, StrLit(""), clean), MergeV(bad, ex.newError("resultpath", nil), NilRef())}}
}

func (w *World) mCaptureEvidence(ex *Exec, c *callCtx) Value {
	bad := ex.nondet("world.evidence.bad", "bool").(BoolV).T
	rt := c.fn.Signature.Results().At(0).Type()
	p := c.args[1].(StrV).T
	st := rt.Underlying().(*types.Struct)
	sv := StructV{F: make([]Value, st.NumFields())}
	for i := 0; i < st.NumFields(); i++ {
		sv.F[i] = StrV{T: UF("evidence_"+strings.ToLower(st.Field(i).Name()), SInt, p)}
	}
	return TupleV{E: []Value{MergeV(bad, ZeroValue(rt), sv), MergeV(bad, ex.newError("evidence", nil), NilRef())}}
}

func (w *World) mParsePlanInput(ex *Exec, c *callCtx) Value {
	if w.stdinPlan == nil {
		panic(unsupported("ParsePlanInput without zzStdinPlan"))
	}
	vt := c.fn.Signature.Results().At(1).Type()
	verr := ex.havoc("world.stdin.verr", vt, havocSpec{def: 0, by: map[string]int{}, constKeys: map[string]bool{}}, "")
	perr := Or(w.stdinParseErr, Not(w.mStdinPiped(ex, c).(BoolV).T))
	return TupleV{E: []Value{MergeV(perr, NilRef(), w.stdinPlan), MergeV(perr, verr, NilRef())}}
}

// zzOutStr(field): the string field `field` (JSON key) of the JSON value written to stdout,
// merged over the paths that write one ("" when absent).
func (w *World) mOutStr(ex *Exec, c *callCtx) Value {
	key, _ := litOf(c.args[0])
	var acc Value = StrLit("")
	for _, o := range outputs {
		if o.Kind != "json" || o.Stream != "stdout" || o.Val == nil {
			continue
		}
		r, ok := o.Val.(RefV)
		if !ok {
			continue
		}
		for _, a := range r.Alts {
			it, ok := a.Tgt.(IfaceT)
			if !ok {
				continue
			}
			var fv Value
			switch v := it.V.(type) {
			case StructV:
				st := it.Typ.Underlying().(*types.Struct)
				for i := 0; i < st.NumFields(); i++ {
					if k, ok := jsonKey(st.Field(i), st.Tag(i)); ok && k == key {
						if sv, ok := v.F[i].(StrV); ok {
							fv = sv
						}
					}
				}
			case RefV:
				// map[string]interface{} / map[string]string literal
				for _, ma := range v.Alts {
					mt, ok := ma.Tgt.(MapT)
					if !ok {
						continue
					}
					for _, e := range mt.M.resolve().entries {
						if ks, ok := litOf(e.Key); ok && ks == key {
							switch ev := e.Val.(type) {
							case StrV:
								fv = ev
							case RefV:
								for _, ia := range ev.Alts {
									if iv, ok := ia.Tgt.(IfaceT); ok {
										if sv, ok := iv.V.(StrV); ok {
											fv = sv
										}
									}
								}
							}
						}
					}
				}
			}
			if fv != nil {
				acc = MergeV(And(o.G, a.C), fv, acc)
			}
		}
	}
	return acc
}
