// String semantics: atom mode (Int codes + UFs) and byte mode (bounded byte vectors).
package main

import (
	"go/token"
	"go/types"
	"strings"

	"golang.org/x/tools/go/ssa"
)

func toBStr(v Value) BStrV {
	switch x := v.(type) {
	case BStrV:
		return x
	case StrV:
		return litToBStr(x)
	}
	panic(unsupported("toBStr %T", v))
}

func bstrAt(bs BStrV, it *Term) *Term {
	if it.IsConst() {
		i := int(it.SVal())
		if i >= 0 && i < len(bs.B) {
			return bs.B[i]
		}
		return BVC(0, 8)
	}
	acc := BVC(0, 8)
	for j := len(bs.B) - 1; j >= 0; j-- {
		acc = Ite(Eq(it, BVC(int64(j), 64)), bs.B[j], acc)
	}
	return acc
}

func bstrSlice(ex *Exec, fr *Frame, bs BStrV, lo, hi *Term, pos token.Pos) Value {
	if lo == nil {
		lo = BVC(0, 64)
	}
	if hi == nil {
		hi = bs.Len
	}
	ex.addPanic(fr, Not(And(BVCmp("bvsle", BVC(0, 64), lo), BVCmp("bvsle", lo, hi), BVCmp("bvsle", hi, bs.Len))), "slice-bounds", pos)
	out := BStrV{Len: BVBin("bvsub", hi, lo)}
	if lo.IsConst() {
		l := int(lo.SVal())
		if l < 0 {
			l = 0
		}
		for i := l; i < len(bs.B); i++ {
			out.B = append(out.B, bs.B[i])
		}
		if hi.IsConst() {
			h := int(hi.SVal()) - l
			if h < 0 {
				h = 0
			}
			if h < len(out.B) {
				out.B = out.B[:h]
			}
		}
		return out
	}
	n := len(bs.B)
	if ub, ok := termUpper(out.Len); ok && ub < n {
		n = ub
	}
	for i := 0; i < n; i++ {
		out.B = append(out.B, bstrAt(bs, BVBin("bvadd", lo, BVC(int64(i), 64))))
	}
	return out
}

func bstrConcat(a, b BStrV) BStrV {
	out := BStrV{Len: BVBin("bvadd", a.Len, b.Len)}
	if a.Len.IsConst() {
		n := int(a.Len.SVal())
		out.B = append(out.B, a.B[:n]...)
		out.B = append(out.B, b.B...)
		return out
	}
	n := len(a.B) + len(b.B)
	for k := 0; k < n; k++ {
		kc := BVC(int64(k), 64)
		var av *Term = BVC(0, 8)
		if k < len(a.B) {
			av = a.B[k]
		}
		bv := bstrAt(b, BVBin("bvsub", kc, a.Len))
		out.B = append(out.B, Ite(BVCmp("bvslt", kc, a.Len), av, bv))
	}
	return out
}

func (ex *Exec) strLen(v Value) *Term {
	switch x := v.(type) {
	case BStrV:
		return x.Len
	case StrV:
		if x.Lit != nil {
			return BVC(int64(len(*x.Lit)), 64)
		}
		return UF("strlen", SBV(64), x.T)
	}
	panic("strLen")
}

func (ex *Exec) strBinop(op token.Token, a, b Value) Value {
	sa, aIsAtom := a.(StrV)
	sb, bIsAtom := b.(StrV)
	if aIsAtom && bIsAtom {
		switch op {
		case token.EQL:
			return BoolV{Eq(sa.T, sb.T)}
		case token.NEQ:
			return BoolV{Neq(sa.T, sb.T)}
		case token.LSS:
			return BoolV{ILt(sa.T, sb.T)}
		case token.LEQ:
			return BoolV{ILe(sa.T, sb.T)}
		case token.GTR:
			return BoolV{ILt(sb.T, sa.T)}
		case token.GEQ:
			return BoolV{ILe(sb.T, sa.T)}
		case token.ADD:
			if sa.Lit != nil && sb.Lit != nil {
				return StrLit(*sa.Lit + *sb.Lit)
			}
			if sa.Lit != nil && *sa.Lit == "" {
				return sb
			}
			if sb.Lit != nil && *sb.Lit == "" {
				return sa
			}
			return StrV{T: UF("cat", SInt, sa.T, sb.T)}
		}
		panic(unsupported("string op %s", op))
	}
	x, y := toBStr(a), toBStr(b)
	switch op {
	case token.EQL:
		return BoolV{bstrEq(x, y)}
	case token.NEQ:
		return BoolV{Not(bstrEq(x, y))}
	case token.ADD:
		return bstrConcat(x, y)
	}
	panic(unsupported("byte-string op %s", op))
}

func runeToStr(ex *Exec, iv IntV) Value {
	if iv.T.IsConst() {
		return StrLit(string(rune(iv.T.SVal())))
	}
	panic(unsupported("string(rune) on symbolic rune"))
}

// bytesToString: []byte -> string
func bytesToString(ex *Exec, v Value) Value {
	switch x := v.(type) {
	case BStrV:
		return x
	case StrV:
		return x
	case RefV:
		if len(x.Alts) == 0 {
			return StrLit("")
		}
		if isSparse(x) {
			x = ex.densify(x, types.Typ[types.Uint8])
		}
		var acc Value
		for i, a := range x.Alts {
			var cur Value
			switch t := a.Tgt.(type) {
			case BoxT:
				cur = StrV{T: UF("boxstr", SInt, IntC(int64(t.B.id)))}
			case SliceT:
				bs := BStrV{Len: t.Len}
				arr := t.Arr.val.(ArrayV)
				max := t.Cap
				if ub, ok := termUpper(t.Len); ok && ub < max {
					max = ub
				}
				for j := 0; j < max; j++ {
					bs.B = append(bs.B, arr.E[t.Off+j].(IntV).T)
				}
				cur = bs
			default:
				panic(unsupported("string([]byte) of %T", a.Tgt))
			}
			if i == 0 {
				acc = cur
			} else {
				acc = MergeV(a.C, cur, acc)
			}
		}
		return acc
	}
	panic(unsupported("bytesToString %T", v))
}

func stringToBytes(ex *Exec, v Value) Value {
	bs := toBStr(v)
	return ex.bstrToSlice(bs)
}

func (ex *Exec) bstrToSlice(bs BStrV) RefV {
	arr := ex.newArray("bytes", types.Typ[types.Uint8], len(bs.B))
	e := arr.val.(ArrayV).E
	for i := range bs.B {
		e[i] = IntV{bs.B[i], false}
	}
	return Ref1(SliceT{Arr: arr, Off: 0, Len: bs.Len, Cap: len(bs.B)})
}

func (ex *Exec) appendBytes(fr *Frame, a0, a1 Value) Value {
	// second operand may be a string
	var t RefV
	switch y := a1.(type) {
	case StrV, BStrV:
		t = ex.bstrToSlice(toBStr(y))
	case RefV:
		t = y
	}
	s := a0.(RefV)
	// a buffer of several marshalled lines
	if elems, ok := ex.asBoxSeq(s); ok && len(elems) > 0 {
		_, sIsSingleBox := s.Alts[0].Tgt.(BoxT)
		if tb, isBox := singleBox(t); isBox {
			ex.nextID++
			return Ref1(BoxSeqT{id: ex.nextID, Elems: append(append([]SeqElem(nil), elems...), SeqElem{True, tb})})
		}
		if !(len(s.Alts) == 1 && sIsSingleBox) {
			// append(buf, '\n'): the terminator of the last line
			last := elems[len(elems)-1]
			nb := *last.B
			ex.nextID++
			nb.id = ex.nextID
			nb.Keys = map[string]*Term{}
			for k, v := range last.B.Keys {
				nb.Keys[k] = v
			}
			nb.Keys["\n"] = IntC(1)
			ne := append([]SeqElem(nil), elems[:len(elems)-1]...)
			ne = append(ne, SeqElem{last.G, &nb})
			ex.nextID++
			return Ref1(BoxSeqT{id: ex.nextID, Elems: ne})
		}
	}
	for _, a := range s.Alts {
		if bt, ok := a.Tgt.(BoxT); ok {
			// append(marshalled, '\n'): record the terminator on the box
			if len(s.Alts) != 1 {
				panic(unsupported("append to union containing a JSON box"))
			}
			nb := *bt.B
			ex.nextID++
			nb.id = ex.nextID
			nb.Keys = map[string]*Term{}
			for k, v := range bt.B.Keys {
				nb.Keys[k] = v
			}
			nb.Keys["\n"] = IntC(1)
			return Ref1(BoxT{B: &nb})
		}
	}
	// append(<empty buffer>, box...) = copy of the box
	if tb, isBox := singleBox(t); isBox {
		empty := true
		for _, a := range s.Alts {
			if st, ok := a.Tgt.(SliceT); !ok || !(st.Len.IsConst() && st.Len.SVal() == 0) {
				empty = false
			}
		}
		if empty {
			_ = tb
			return t
		}
	}
	for _, a := range t.Alts {
		if _, ok := a.Tgt.(LineT); ok && len(s.Alts) == 0 {
			return t // append([]byte(nil), line...) = copy of the line object
		}
		if _, ok := a.Tgt.(BoxT); ok {
			if len(s.Alts) == 0 && len(t.Alts) == 1 {
				return t // append([]byte(nil), box...) = copy
			}
			panic(unsupported("append of JSON box to bytes"))
		}
	}
	return ex.appendSlice(fr, s, t, types.Typ[types.Uint8])
}

// nextString: range over string (byte mode): decode one rune with the real utf8 routine.
func (ex *Exec) nextString(fr *Frame, x *ssa.Next, it *RangeIterV) Value {
	panic(unsupported("range over string"))
}

// helpers for models on literal strings
func litOf(v Value) (string, bool) {
	if s, ok := v.(StrV); ok && s.Lit != nil {
		return *s.Lit, true
	}
	if s, ok := v.(StrV); ok && s.T != nil && s.T.IsConst() {
		if l, ok := Lits.byCode[s.T.ival.Int64()]; ok {
			return l, true
		}
	}
	return "", false
}

var _ = strings.TrimSpace

func singleBox(t RefV) (*Box, bool) {
	if len(t.Alts) != 1 {
		return nil, false
	}
	if bt, ok := t.Alts[0].Tgt.(BoxT); ok {
		return bt.B, true
	}
	return nil, false
}

// asBoxSeq: the value as one sequence of guarded lines. A union of alternatives that are
// sub-sequences of one another (loop iterations that did or did not append) is merged: an element
// is present iff some alternative holding it is the actual one.
func (ex *Exec) asBoxSeq(s RefV) ([]SeqElem, bool) {
	var order []*Box
	pos := map[*Box]int{}
	guards := map[*Box]*Term{}
	sawSeq := false
	for _, a := range s.Alts {
		var elems []SeqElem
		switch t := a.Tgt.(type) {
		case BoxT:
			elems = []SeqElem{{True, t.B}}
			sawSeq = true
		case BoxSeqT:
			elems = t.Elems
			sawSeq = true
		case SliceT:
			if !(t.Len.IsConst() && t.Len.SVal() == 0) {
				return nil, false
			}
		default:
			return nil, false
		}
		prev := -1
		for _, e := range elems {
			key := e.B
			// a line and the same line with its terminator added are the same element
			i, known := pos[key]
			if !known {
				i = len(order)
				pos[key] = i
				order = append(order, key)
				guards[key] = False
			}
			if i <= prev {
				return nil, false
			}
			prev = i
			guards[key] = Or(guards[key], And(a.C, e.G))
		}
	}
	if !sawSeq {
		return nil, false
	}
	out := make([]SeqElem, len(order))
	for i, b := range order {
		out[i] = SeqElem{guards[b], b}
	}
	return out, true
}
