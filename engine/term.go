// Term DAG with hash-consing, light simplification and SMT-LIB2 printing.
package main

import (
	"fmt"
	"math/big"
	"sort"
	"strconv"
	"strings"
)

type Sort struct {
	K byte // 'B' bool, 'I' int, 'V' bitvec
	W int  // width for 'V'
}

var (
	SBool = Sort{K: 'B'}
	SInt  = Sort{K: 'I'}
)

func SBV(w int) Sort { return Sort{K: 'V', W: w} }

func (s Sort) String() string {
	switch s.K {
	case 'B':
		return "Bool"
	case 'I':
		return "Int"
	default:
		return fmt.Sprintf("(_ BitVec %d)", s.W)
	}
}

type Term struct {
	id   int
	op   string // "var","const","not","and","or","ite","=","<","<=","+","-","uf:<name>", bv ops...
	args []*Term
	sort Sort
	name string   // var name
	ival *big.Int // const value for I and V; for B: 0/1
	ext  [2]int   // extract hi/lo, or extension amount
}

type TermStore struct {
	tab   map[string]*Term
	all   []*Term
	vars  map[string]*Term
	ufs   map[string]ufSig
	fresh int
}

type ufSig struct {
	args []Sort
	ret  Sort
}

func NewTermStore() *TermStore {
	ts := &TermStore{tab: map[string]*Term{}, vars: map[string]*Term{}, ufs: map[string]ufSig{}}
	return ts
}

var TS = NewTermStore()

func (ts *TermStore) intern(t *Term) *Term {
	var sb strings.Builder
	sb.WriteString(t.op)
	sb.WriteByte('|')
	sb.WriteString(t.sort.String())
	sb.WriteByte('|')
	if t.op == "var" {
		sb.WriteString(t.name)
	}
	if t.ival != nil {
		sb.WriteString(t.ival.String())
	}
	sb.WriteByte('|')
	if t.ext != [2]int{} {
		fmt.Fprintf(&sb, "%d,%d", t.ext[0], t.ext[1])
	}
	for _, a := range t.args {
		sb.WriteByte(',')
		sb.WriteString(strconv.Itoa(a.id))
	}
	k := sb.String()
	if e, ok := ts.tab[k]; ok {
		return e
	}
	t.id = len(ts.all)
	ts.all = append(ts.all, t)
	ts.tab[k] = t
	return t
}

var (
	bigOne  = big.NewInt(1)
	bigZero = big.NewInt(0)
	True    = TS.intern(&Term{op: "const", sort: SBool, ival: bigOne})
	False   = TS.intern(&Term{op: "const", sort: SBool, ival: bigZero})
)

func (t *Term) IsConst() bool { return t.op == "const" }
func (t *Term) IsTrue() bool  { return t == True }
func (t *Term) IsFalse() bool { return t == False }

func Var(name string, s Sort) *Term {
	if v, ok := TS.vars[name]; ok {
		if v.sort != s {
			panic("var sort clash " + name)
		}
		return v
	}
	v := TS.intern(&Term{op: "var", sort: s, name: name})
	TS.vars[name] = v
	return v
}

func FreshVar(prefix string, s Sort) *Term {
	TS.fresh++
	return Var(fmt.Sprintf("%s!%d", prefix, TS.fresh), s)
}

func IntC(v int64) *Term {
	return TS.intern(&Term{op: "const", sort: SInt, ival: big.NewInt(v)})
}

func BVC(v int64, w int) *Term {
	b := big.NewInt(v)
	m := new(big.Int).Lsh(big.NewInt(1), uint(w))
	b.Mod(b, m)
	return TS.intern(&Term{op: "const", sort: SBV(w), ival: b})
}

func BVCBig(b *big.Int, w int) *Term {
	m := new(big.Int).Lsh(big.NewInt(1), uint(w))
	b = new(big.Int).Mod(b, m)
	return TS.intern(&Term{op: "const", sort: SBV(w), ival: b})
}

func BoolC(b bool) *Term {
	if b {
		return True
	}
	return False
}

// signed value of a BV constant
func (t *Term) SVal() int64 {
	if t.sort.K == 'V' {
		half := new(big.Int).Lsh(big.NewInt(1), uint(t.sort.W-1))
		if t.ival.Cmp(half) >= 0 {
			m := new(big.Int).Lsh(big.NewInt(1), uint(t.sort.W))
			return new(big.Int).Sub(t.ival, m).Int64()
		}
	}
	return t.ival.Int64()
}

var pushMemo = map[[3]int]*Term{}

// nested and/or nodes with more arguments than this are kept as shared subterms instead of
// being flattened into their parent (flattening copies argument lists and destroys sharing)
const flattenMax = 3

func Not(a *Term) *Term {
	if a == True {
		return False
	}
	if a == False {
		return True
	}
	if a.op == "not" {
		return a.args[0]
	}
	return TS.intern(&Term{op: "not", sort: SBool, args: []*Term{a}})
}

func And(xs ...*Term) *Term {
	var out []*Term
	seen := map[int]bool{}
	var add func(x *Term) bool
	add = func(x *Term) bool {
		if x == True {
			return true
		}
		if x == False {
			return false
		}
		if x.op == "and" && len(x.args) <= flattenMax {
			for _, y := range x.args {
				if !add(y) {
					return false
				}
			}
			return true
		}
		if seen[x.id] {
			return true
		}
		seen[x.id] = true
		out = append(out, x)
		return true
	}
	for _, x := range xs {
		if !add(x) {
			return False
		}
	}
	for _, x := range out {
		if x.op == "not" && seen[x.args[0].id] {
			return False
		}
	}
	if len(out) == 0 {
		return True
	}
	if len(out) == 1 {
		return out[0]
	}
	sort.Slice(out, func(i, j int) bool { return out[i].id < out[j].id })
	return TS.intern(&Term{op: "and", sort: SBool, args: out})
}

func Or(xs ...*Term) *Term {
	var out []*Term
	seen := map[int]bool{}
	var add func(x *Term) bool
	add = func(x *Term) bool {
		if x == False {
			return true
		}
		if x == True {
			return false
		}
		if x.op == "or" && len(x.args) <= flattenMax {
			for _, y := range x.args {
				if !add(y) {
					return false
				}
			}
			return true
		}
		if seen[x.id] {
			return true
		}
		seen[x.id] = true
		out = append(out, x)
		return true
	}
	for _, x := range xs {
		if !add(x) {
			return True
		}
	}
	for _, x := range out {
		if x.op == "not" && seen[x.args[0].id] {
			return True
		}
	}
	if len(out) == 0 {
		return False
	}
	if len(out) == 1 {
		return out[0]
	}
	sort.Slice(out, func(i, j int) bool { return out[i].id < out[j].id })
	return TS.intern(&Term{op: "or", sort: SBool, args: out})
}

func Implies(a, b *Term) *Term { return Or(Not(a), b) }

func Ite(c, a, b *Term) *Term {
	if c == True {
		return a
	}
	if c == False {
		return b
	}
	if a == b {
		return a
	}
	if a.sort != b.sort {
		panic(fmt.Sprintf("ite sort mismatch %v %v", a.sort, b.sort))
	}
	if a.sort == SBool {
		if a == True && b == False {
			return c
		}
		if a == False && b == True {
			return Not(c)
		}
		if a == True {
			return Or(c, b)
		}
		if a == False {
			return And(Not(c), b)
		}
		if b == True {
			return Or(Not(c), a)
		}
		if b == False {
			return And(c, a)
		}
	}
	// ite(c, x, ite(c, y, z)) -> ite(c,x,z)
	if b.op == "ite" && b.args[0] == c {
		return Ite(c, a, b.args[2])
	}
	if a.op == "ite" && a.args[0] == c {
		return Ite(c, a.args[1], b)
	}
	return TS.intern(&Term{op: "ite", sort: a.sort, args: []*Term{c, a, b}})
}

func Eq(a, b *Term) *Term {
	if a == b {
		return True
	}
	if a.sort != b.sort {
		panic(fmt.Sprintf("eq sort mismatch %v %v (%s / %s)", a.sort, b.sort, a.op, b.op))
	}
	if a.IsConst() && b.IsConst() {
		return BoolC(a.ival.Cmp(b.ival) == 0)
	}
	if a.sort == SBool {
		if a == True {
			return b
		}
		if b == True {
			return a
		}
		if a == False {
			return Not(b)
		}
		if b == False {
			return Not(a)
		}
	}
	// push equality with a constant through ite whose branches are constants (keeps terms small)
	if b.IsConst() && a.op == "ite" && constLeaves(a) {
		k := [3]int{0, a.id, b.id}
		if r, ok := pushMemo[k]; ok {
			return r
		}
		r := Ite(a.args[0], Eq(a.args[1], b), Eq(a.args[2], b))
		pushMemo[k] = r
		return r
	}
	if a.IsConst() && b.op == "ite" && constLeaves(b) {
		return Eq(b, a)
	}
	if a.id > b.id {
		a, b = b, a
	}
	return TS.intern(&Term{op: "=", sort: SBool, args: []*Term{a, b}})
}

func Neq(a, b *Term) *Term { return Not(Eq(a, b)) }

// Integer (mathematical) comparisons / arithmetic, used for atoms and time instants.
func ILt(a, b *Term) *Term {
	if a.IsConst() && b.IsConst() {
		return BoolC(a.ival.Cmp(b.ival) < 0)
	}
	if a == b {
		return False
	}
	return TS.intern(&Term{op: "<", sort: SBool, args: []*Term{a, b}})
}
func ILe(a, b *Term) *Term {
	if a.IsConst() && b.IsConst() {
		return BoolC(a.ival.Cmp(b.ival) <= 0)
	}
	if a == b {
		return True
	}
	return TS.intern(&Term{op: "<=", sort: SBool, args: []*Term{a, b}})
}
func IAdd(a, b *Term) *Term {
	if a.IsConst() && b.IsConst() {
		return TS.intern(&Term{op: "const", sort: SInt, ival: new(big.Int).Add(a.ival, b.ival)})
	}
	return TS.intern(&Term{op: "+", sort: SInt, args: []*Term{a, b}})
}

// UF application.
func UF(name string, ret Sort, args ...*Term) *Term {
	sig, ok := TS.ufs[name]
	if !ok {
		sig = ufSig{ret: ret}
		for _, a := range args {
			sig.args = append(sig.args, a.sort)
		}
		TS.ufs[name] = sig
	} else {
		if sig.ret != ret || len(sig.args) != len(args) {
			panic("uf signature clash " + name)
		}
	}
	return TS.intern(&Term{op: "uf:" + name, sort: ret, args: args})
}

// ---- bit-vectors ----

func bvmask(w int) *big.Int {
	return new(big.Int).Sub(new(big.Int).Lsh(big.NewInt(1), uint(w)), big.NewInt(1))
}

func toSigned(v *big.Int, w int) *big.Int {
	half := new(big.Int).Lsh(big.NewInt(1), uint(w-1))
	if v.Cmp(half) >= 0 {
		return new(big.Int).Sub(v, new(big.Int).Lsh(big.NewInt(1), uint(w)))
	}
	return new(big.Int).Set(v)
}

func BVBin(op string, a, b *Term) *Term {
	if a.sort != b.sort {
		panic(fmt.Sprintf("bv sort mismatch %s %v %v", op, a.sort, b.sort))
	}
	w := a.sort.W
	if a.IsConst() && b.IsConst() {
		x, y := a.ival, b.ival
		r := new(big.Int)
		switch op {
		case "bvadd":
			r.Add(x, y)
		case "bvsub":
			r.Sub(x, y)
		case "bvmul":
			r.Mul(x, y)
		case "bvand":
			r.And(x, y)
		case "bvor":
			r.Or(x, y)
		case "bvxor":
			r.Xor(x, y)
		case "bvshl":
			if y.Cmp(big.NewInt(int64(w))) >= 0 {
				r.SetInt64(0)
			} else {
				r.Lsh(x, uint(y.Int64()))
			}
		case "bvlshr":
			if y.Cmp(big.NewInt(int64(w))) >= 0 {
				r.SetInt64(0)
			} else {
				r.Rsh(x, uint(y.Int64()))
			}
		case "bvashr":
			sx := toSigned(x, w)
			if y.Cmp(big.NewInt(int64(w))) >= 0 {
				if sx.Sign() < 0 {
					r.SetInt64(-1)
				} else {
					r.SetInt64(0)
				}
			} else {
				r.Rsh(sx, uint(y.Int64()))
			}
		case "bvudiv":
			if y.Sign() == 0 {
				r = bvmask(w)
			} else {
				r.Div(x, y)
			}
		case "bvurem":
			if y.Sign() == 0 {
				r.Set(x)
			} else {
				r.Mod(x, y)
			}
		case "bvsdiv":
			if y.Sign() == 0 {
				goto symbolic
			}
			r.Quo(toSigned(x, w), toSigned(y, w))
		case "bvsrem":
			if y.Sign() == 0 {
				goto symbolic
			}
			r.Rem(toSigned(x, w), toSigned(y, w))
		default:
			panic("bvbin " + op)
		}
		return BVCBig(r, w)
	}
symbolic:
	// identities
	switch op {
	case "bvadd":
		if a.IsConst() && a.ival.Sign() == 0 {
			return b
		}
		if b.IsConst() && b.ival.Sign() == 0 {
			return a
		}
		// (x + c1) + c2
		if b.IsConst() && a.op == "bvadd" && a.args[1].IsConst() {
			return BVBin("bvadd", a.args[0], BVBin("bvadd", a.args[1], b))
		}
	case "bvsub":
		if b.IsConst() && b.ival.Sign() == 0 {
			return a
		}
		if a == b {
			return BVC(0, w)
		}
		if b.IsConst() {
			return BVBin("bvadd", a, BVCBig(new(big.Int).Neg(b.ival), w))
		}
	case "bvand":
		if a == b {
			return a
		}
	case "bvor":
		if a == b {
			return a
		}
	}
	if (op == "bvadd" || op == "bvmul" || op == "bvand" || op == "bvor" || op == "bvxor") && a.IsConst() {
		a, b = b, a
	}
	// distribute add-constant over ite with a constant branch (keeps counters concrete-ish)
	if op == "bvadd" && b.IsConst() && a.op == "ite" && constLeaves(a) {
		k := [3]int{20, a.id, b.id}
		if r, ok := pushMemo[k]; ok {
			return r
		}
		r := Ite(a.args[0], BVBin(op, a.args[1], b), BVBin(op, a.args[2], b))
		pushMemo[k] = r
		return r
	}
	return TS.intern(&Term{op: op, sort: a.sort, args: []*Term{a, b}})
}

func BVCmp(op string, a, b *Term) *Term {
	if a.sort != b.sort {
		panic(fmt.Sprintf("bvcmp sort mismatch %s %v %v", op, a.sort, b.sort))
	}
	w := a.sort.W
	if a.IsConst() && b.IsConst() {
		var c int
		if op[2] == 's' {
			c = toSigned(a.ival, w).Cmp(toSigned(b.ival, w))
		} else {
			c = a.ival.Cmp(b.ival)
		}
		switch op {
		case "bvult", "bvslt":
			return BoolC(c < 0)
		case "bvule", "bvsle":
			return BoolC(c <= 0)
		}
		panic(op)
	}
	if a == b {
		return BoolC(op == "bvule" || op == "bvsle")
	}
	// range reasoning for small non-negative counters (lengths, indices)
	if w == 64 {
		if a.IsConst() && a.ival.IsInt64() && a.ival.Int64() >= 0 {
			if ub, ok := termUpper(b); ok && ub >= 0 {
				av := int(a.ival.Int64())
				if (op == "bvslt" || op == "bvult") && av >= ub {
					return False
				}
				if (op == "bvsle" || op == "bvule") && av > ub {
					return False
				}
			}
		}
		if b.IsConst() && b.ival.IsInt64() && b.ival.Int64() >= 0 {
			if ub, ok := termUpper(a); ok && ub >= 0 && termNonNeg(a) {
				bv := int(b.ival.Int64())
				if (op == "bvslt" || op == "bvult") && ub < bv {
					return True
				}
				if (op == "bvsle" || op == "bvule") && ub <= bv {
					return True
				}
			}
		}
	}
	opk := map[string]int{"bvult": 1, "bvule": 2, "bvslt": 3, "bvsle": 4}[op]
	if a.op == "ite" && b.IsConst() && constLeaves(a) {
		k := [3]int{opk, a.id, b.id}
		if r, ok := pushMemo[k]; ok {
			return r
		}
		r := Ite(a.args[0], BVCmp(op, a.args[1], b), BVCmp(op, a.args[2], b))
		pushMemo[k] = r
		return r
	}
	if b.op == "ite" && a.IsConst() && constLeaves(b) {
		k := [3]int{opk + 10, a.id, b.id}
		if r, ok := pushMemo[k]; ok {
			return r
		}
		r := Ite(b.args[0], BVCmp(op, a, b.args[1]), BVCmp(op, a, b.args[2]))
		pushMemo[k] = r
		return r
	}
	return TS.intern(&Term{op: op, sort: SBool, args: []*Term{a, b}})
}

func BVNot(a *Term) *Term {
	if a.IsConst() {
		return BVCBig(new(big.Int).Xor(a.ival, bvmask(a.sort.W)), a.sort.W)
	}
	return TS.intern(&Term{op: "bvnot", sort: a.sort, args: []*Term{a}})
}

func BVNeg(a *Term) *Term {
	if a.IsConst() {
		return BVCBig(new(big.Int).Neg(a.ival), a.sort.W)
	}
	return TS.intern(&Term{op: "bvneg", sort: a.sort, args: []*Term{a}})
}

// BVResize converts a to width w (truncate, or extend signed/unsigned).
func BVResize(a *Term, w int, signed bool) *Term {
	aw := a.sort.W
	if aw == w {
		return a
	}
	if a.IsConst() {
		if w < aw {
			return BVCBig(new(big.Int).Set(a.ival), w)
		}
		if signed {
			return BVCBig(toSigned(a.ival, aw), w)
		}
		return BVCBig(new(big.Int).Set(a.ival), w)
	}
	if a.op == "ite" && constLeaves(a) {
		sg := 0
		if signed {
			sg = 1
		}
		k := [3]int{30 + sg, a.id, w}
		if r, ok := pushMemo[k]; ok {
			return r
		}
		r := Ite(a.args[0], BVResize(a.args[1], w, signed), BVResize(a.args[2], w, signed))
		pushMemo[k] = r
		return r
	}
	if w < aw {
		return TS.intern(&Term{op: "extract", sort: SBV(w), args: []*Term{a}, ext: [2]int{w - 1, 0}})
	}
	op := "zero_extend"
	if signed {
		op = "sign_extend"
	}
	return TS.intern(&Term{op: op, sort: SBV(w), args: []*Term{a}, ext: [2]int{w - aw, -1}})
}

// ---- printing ----

func smtName(s string) string {
	ok := true
	for _, c := range s {
		if !(c >= 'a' && c <= 'z' || c >= 'A' && c <= 'Z' || c >= '0' && c <= '9' || strings.ContainsRune("_.!$-", c)) {
			ok = false
			break
		}
	}
	if ok && len(s) > 0 && !(s[0] >= '0' && s[0] <= '9') {
		return s
	}
	return "|" + strings.ReplaceAll(s, "|", "_") + "|"
}

func (t *Term) ref() string {
	switch t.op {
	case "const":
		switch t.sort.K {
		case 'B':
			if t.ival.Sign() != 0 {
				return "true"
			}
			return "false"
		case 'I':
			if t.ival.Sign() < 0 {
				return "(- " + new(big.Int).Neg(t.ival).String() + ")"
			}
			return t.ival.String()
		default:
			return fmt.Sprintf("(_ bv%s %d)", t.ival.String(), t.sort.W)
		}
	case "var":
		return smtName(t.name)
	}
	return "n" + strconv.Itoa(t.id)
}

func (t *Term) body() string {
	var sb strings.Builder
	op := t.op
	switch {
	case strings.HasPrefix(op, "uf:"):
		op = smtName(op[3:])
	case op == "extract":
		op = fmt.Sprintf("(_ extract %d %d)", t.ext[0], t.ext[1])
	case op == "zero_extend" || op == "sign_extend":
		op = fmt.Sprintf("(_ %s %d)", op, t.ext[0])
	}
	if len(t.args) == 0 { // nullary uf
		return op
	}
	sb.WriteByte('(')
	sb.WriteString(op)
	for _, a := range t.args {
		sb.WriteByte(' ')
		sb.WriteString(a.ref())
	}
	sb.WriteByte(')')
	return sb.String()
}

// Cone collects all terms reachable from roots, in topological order.
func Cone(roots []*Term) []*Term {
	seen := map[int]bool{}
	var out []*Term
	// iterative DFS to avoid deep recursion
	type fr struct {
		t *Term
		i int
	}
	for _, r := range roots {
		if seen[r.id] {
			continue
		}
		st := []fr{{r, 0}}
		seen[r.id] = true
		for len(st) > 0 {
			f := &st[len(st)-1]
			if f.i < len(f.t.args) {
				a := f.t.args[f.i]
				f.i++
				if !seen[a.id] {
					seen[a.id] = true
					st = append(st, fr{a, 0})
				}
				continue
			}
			out = append(out, f.t)
			st = st[:len(st)-1]
		}
	}
	return out
}

// EmitQuery writes a self-contained SMT-LIB2 script asserting all of asserts (plus the
// axiom instances for the UF applications in their cone); returns the script, the
// variables occurring in it and the final cone.
func EmitQuery(asserts []*Term, axioms func(cone []*Term) []*Term) (string, []*Term, []*Term) {
	cone := Cone(asserts)
	if axioms != nil {
		have := map[int]bool{}
		for _, a := range asserts {
			have[a.id] = true
		}
		for round := 0; round < 3; round++ {
			added := false
			for _, ax := range axioms(cone) {
				if ax.IsTrue() || have[ax.id] {
					continue
				}
				have[ax.id] = true
				asserts = append(asserts, ax)
				added = true
			}
			if !added {
				break
			}
			cone = Cone(asserts)
		}
	}
	var sb strings.Builder
	var vars []*Term
	ufSeen := map[string]bool{}
	for _, t := range cone {
		if strings.HasPrefix(t.op, "uf:") {
			n := t.op[3:]
			if !ufSeen[n] {
				ufSeen[n] = true
				sig := TS.ufs[n]
				sb.WriteString("(declare-fun " + smtName(n) + " (")
				for i, a := range sig.args {
					if i > 0 {
						sb.WriteByte(' ')
					}
					sb.WriteString(a.String())
				}
				sb.WriteString(") " + sig.ret.String() + ")\n")
			}
		}
	}
	for _, t := range cone {
		switch t.op {
		case "const":
		case "var":
			vars = append(vars, t)
			sb.WriteString("(declare-const " + smtName(t.name) + " " + t.sort.String() + ")\n")
		default:
			sb.WriteString("(declare-const " + t.ref() + " " + t.sort.String() + ")\n")
			sb.WriteString("(assert (= " + t.ref() + " " + t.body() + "))\n")
		}
	}
	for _, a := range asserts {
		sb.WriteString("(assert " + a.ref() + ")\n")
	}
	return sb.String(), vars, cone
}

// String renders a term as a nested s-expression (for samples / debugging), depth-limited.
func (t *Term) Pretty(depth int) string {
	if t.op == "const" || t.op == "var" {
		return t.ref()
	}
	if depth <= 0 {
		return "…"
	}
	op := t.op
	if strings.HasPrefix(op, "uf:") {
		op = op[3:]
	}
	var parts []string
	for _, a := range t.args {
		parts = append(parts, a.Pretty(depth-1))
	}
	return "(" + op + " " + strings.Join(parts, " ") + ")"
}

// termNonNeg: syntactically non-negative (ite / + over non-negative constants).
var nonNegMemo = map[*Term]bool{}

func termNonNeg(t *Term) bool {
	if r, ok := nonNegMemo[t]; ok {
		return r
	}
	r := termNonNeg1(t)
	nonNegMemo[t] = r
	return r
}

func termNonNeg1(t *Term) bool {
	switch t.op {
	case "const":
		return t.SVal() >= 0
	case "ite":
		return termNonNeg(t.args[1]) && termNonNeg(t.args[2])
	case "bvadd":
		return termNonNeg(t.args[0]) && termNonNeg(t.args[1])
	}
	return false
}

// constLeaves: t is an ite tree all of whose leaves are constants (memoised).
var constLeafMemo = map[*Term]bool{}

func constLeaves(t *Term) bool {
	if t.op == "const" {
		return true
	}
	if t.op != "ite" {
		return false
	}
	if r, ok := constLeafMemo[t]; ok {
		return r
	}
	r := constLeaves(t.args[1]) && constLeaves(t.args[2])
	constLeafMemo[t] = r
	return r
}

// Subst rebuilds t with the variable `from` replaced by `to` (same sort). Terms not mentioning
// `from` are returned unchanged; rebuilt nodes go through the simplifying constructors where one
// exists, otherwise they are interned as they are.
func Subst(t, from, to *Term) *Term {
	memo := map[*Term]*Term{}
	var walk func(t *Term) *Term
	walk = func(t *Term) *Term {
		if t == from {
			return to
		}
		if len(t.args) == 0 {
			return t
		}
		if r, ok := memo[t]; ok {
			return r
		}
		changed := false
		na := make([]*Term, len(t.args))
		for i, a := range t.args {
			na[i] = walk(a)
			if na[i] != a {
				changed = true
			}
		}
		r := t
		if changed {
			switch t.op {
			case "not":
				r = Not(na[0])
			case "and":
				r = And(na...)
			case "or":
				r = Or(na...)
			case "ite":
				r = Ite(na[0], na[1], na[2])
			case "=":
				r = Eq(na[0], na[1])
			case "<":
				r = ILt(na[0], na[1])
			case "<=":
				r = ILe(na[0], na[1])
			default:
				r = TS.intern(&Term{op: t.op, args: na, sort: t.sort, name: t.name, ival: t.ival, ext: t.ext})
			}
		}
		memo[t] = r
		return r
	}
	return walk(t)
}
