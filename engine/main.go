// gosmt: symbolic execution of ergo's go/ssa into SMT-LIB2, one harness entry per run.
package main

import (
	"crypto/sha256"
	"encoding/json"
	"flag"
	"fmt"
	"go/constant"
	"go/types"
	"os"
	"path/filepath"
	"runtime/debug"
	"sort"
	"strings"
	"sync"
	"time"

	"golang.org/x/tools/go/packages"
	"golang.org/x/tools/go/ssa"
	"golang.org/x/tools/go/ssa/ssautil"
)

type OblResult struct {
	Label   string            `json:"label"`
	Kind    string            `json:"kind"`
	Pos     string            `json:"pos"`
	Status  string            `json:"status"` // unsat (discharged) | sat | unknown | error | vacuous
	Reach   string            `json:"reach"`  // sat | unsat | unknown | skipped
	Time    float64           `json:"time_s"`
	Model   map[string]string `json:"model,omitempty"`
	Err     string            `json:"err,omitempty"`
	Size    int               `json:"smt_bytes"`
	Second  string            `json:"second_solver,omitempty"`
}

type RunResult struct {
	Entry       string            `json:"entry"`
	Status      string            `json:"status"` // ok | unsupported | error
	Err         string            `json:"err,omitempty"`
	Obligations []OblResult       `json:"obligations"`
	Functions   map[string]string `json:"functions_encoded"`
	Models      map[string]int    `json:"models_hit"`
	Notes       []string          `json:"notes,omitempty"`
	Reach       map[string]string `json:"reach_witnesses"`
	Bounds      map[string]int    `json:"bounds"`
	Solver      string            `json:"solver"`
	SolverTime  float64           `json:"solver_time_s"`
	SolverMax   float64           `json:"solver_max_s"`
	Queries     int               `json:"queries"`
	EncodeTime  float64           `json:"encode_time_s"`
	LoadTime    float64           `json:"load_time_s"`
	Terms       int               `json:"terms"`
	Calls       int               `json:"inlined_calls"`
	Literals    map[string]int64  `json:"literals,omitempty"`
	Nondets     map[string]string `json:"nondets,omitempty"`
	Outputs     int               `json:"output_events"`
	Meta        map[string]interface{} `json:"meta,omitempty"`
}

func main() {
	repo := flag.String("repo", "/repo", "repository root")
	pkgPath := flag.String("pkg", "./internal/ergo", "package")
	harness := flag.String("harness", "", "comma-separated harness files (overlaid into the package dir)")
	entries := flag.String("entry", "", "comma-separated harness entry functions")
	out := flag.String("out", "", "result json path (dir for multiple entries)")
	loopB := flag.Int("loop", 10, "loop unwinding bound")
	recB := flag.Int("rec", 6, "recursion bound")
	sliceCap := flag.Int("slicecap", 16, "physical capacity for reallocated slices")
	timeout := flag.Int("timeout", 60000, "per-query solver timeout ms")
	workers := flag.Int("workers", 8, "solver workers")
	solver := flag.String("solver", "z3", "z3 | z3-new | cvc5")
	second := flag.String("second", "", "second solver to cross-check every obligation")
	trace := flag.Bool("trace", false, "trace calls")
	noPanics := flag.Bool("nopanics", false, "do not discharge panic obligations")
	flag.BoolVar(&coalesceSlices, "coalesce", false, "at a phi, copy a union of slice values into one fresh array (sound when the program does not write through aliases of those slices; for work-list loops)")
	dumpDir := flag.String("dump", "", "dump smt queries to dir")
	maxCalls := flag.Int("maxcalls", 200000, "inlined call budget")
	assumeUnwind := flag.String("assumeunwind", "newShortID=2", "fn=k,...: loops of fn are assumed (not asserted) to exit within k iterations")
	only := flag.String("only", "", "comma-separated label prefixes: assertions with other labels are not discharged (they belong to another property's check)")
	stubs := flag.String("stubs", "", "comma-separated fn=harnessFn: replace an ergo function by a harness-level summary (verified separately)")
	flag.Parse()

	os.Setenv("PATH", "/opt/veriftools/go1.26.8/bin:"+os.Getenv("PATH"))
	os.Setenv("GOTOOLCHAIN", "local")
	os.Setenv("GOFLAGS", "-mod=mod")
	os.Setenv("GOPROXY", "off")
	t0 := time.Now()
	overlay := map[string][]byte{}
	pkgDir := filepath.Join(*repo, strings.TrimPrefix(*pkgPath, "./"))
	for _, h := range strings.Split(*harness, ",") {
		if h == "" {
			continue
		}
		data, err := os.ReadFile(h)
		if err != nil {
			fatal(err)
		}
		overlay[filepath.Join(pkgDir, "zz_"+filepath.Base(h))] = data
	}
	cfg := &packages.Config{Mode: packages.LoadAllSyntax, Dir: *repo, Overlay: overlay,
		Env: append(os.Environ(), "GOFLAGS=-mod=mod", "GOPROXY=off", "GOTOOLCHAIN=local", "PATH=/opt/veriftools/go1.26.8/bin:"+os.Getenv("PATH"))}
	pkgs, err := packages.Load(cfg, *pkgPath)
	if err != nil {
		fatal(err)
	}
	if packages.PrintErrors(pkgs) > 0 {
		os.Exit(2)
	}
	prog, spkgs := ssautil.AllPackages(pkgs, ssa.InstantiateGenerics)
	prog.Build()
	loadTime := time.Since(t0).Seconds()
	epkg := spkgs[0]

	// order-preserving literal codes for every string constant of the package
	var lits []string
	for fn := range ssautil.AllFunctions(prog) {
		if fn.Pkg != epkg {
			continue
		}
		for _, b := range fn.Blocks {
			for _, ins := range b.Instrs {
				for _, op := range ins.Operands(nil) {
					if c, ok := (*op).(*ssa.Const); ok && c.Value != nil && c.Value.Kind() == constant.String {
						if _, isStr := c.Type().Underlying().(*types.Basic); isStr {
							lits = append(lits, constant.StringVal(c.Value))
						}
					}
				}
			}
		}
	}
	Lits.Prescan(lits)

	for _, kv := range strings.Split(*stubs, ",") {
		if kv == "" {
			continue
		}
		p := strings.SplitN(kv, "=", 2)
		target := p[1]
		key := ergoPath + "." + p[0]
		if strings.Contains(p[0], ".") {
			key = p[0] // a library function, e.g. path/filepath.Clean, replaced by a harness-level model
		}
		modelTable[key] = func(ex *Exec, c *callCtx) Value {
			fn := ex.pkg.Func(target)
			if fn == nil {
				panic(unsupported("summary function %s not found", target))
			}
			saved := c.fr.guard
			res := ex.callFunction(fn, c.args, nil, c.guard, c.pos)
			c.fr.guard = saved
			return res
		}
	}
	au := map[string]int{}
	for _, kv := range strings.Split(*assumeUnwind, ",") {
		if p := strings.SplitN(kv, "=", 2); len(p) == 2 {
			n := 0
			fmt.Sscanf(p[1], "%d", &n)
			au[p[0]] = n
		}
	}
	onlyPrefixes = *only
	pool := NewSolverPool(*solver, *workers)
	var pool2 *SolverPool
	if *second != "" {
		pool2 = NewSolverPool(*second, *workers)
	}
	ents := strings.Split(*entries, ",")
	for _, entry := range ents {
		res := runEntry(prog, epkg, entry, Config{AssumeUnwind: au, LoopBound: *loopB, RecBound: *recB, SliceCap: *sliceCap, MaxCalls: *maxCalls}, pool, pool2, *timeout, *trace, *noPanics, *dumpDir)
		res.LoadTime = loadTime
		res.Solver = *solver
		data, _ := json.MarshalIndent(res, "", " ")
		path := *out
		if len(ents) > 1 || strings.HasSuffix(path, "/") {
			os.MkdirAll(path, 0755)
			path = filepath.Join(path, entry+".json")
		}
		if path == "" {
			os.Stdout.Write(data)
		} else if err := os.WriteFile(path, data, 0644); err != nil {
			fatal(err)
		}
		nsat, nunk := 0, 0
		for _, o := range res.Obligations {
			if o.Status == "sat" {
				nsat++
			} else if o.Status != "unsat" {
				nunk++
			}
		}
		fmt.Fprintf(os.Stderr, "gosmt %s: status=%s obligations=%d sat=%d inconclusive=%d encode=%.1fs solver=%.1fs %s\n",
			entry, res.Status, len(res.Obligations), nsat, nunk, res.EncodeTime, res.SolverTime, res.Err)
	}
	pool.Close()
	if pool2 != nil {
		pool2.Close()
	}
}

func fatal(err error) {
	fmt.Fprintln(os.Stderr, "gosmt:", err)
	os.Exit(2)
}

func runEntry(prog *ssa.Program, epkg *ssa.Package, entry string, cfg Config, pool, pool2 *SolverPool, timeout int, trace, noPanics bool, dumpDir string) (res RunResult) {
	res.Entry = entry
	res.Functions = map[string]string{}
	res.Reach = map[string]string{}
	res.Bounds = map[string]int{"loop": cfg.LoopBound, "recursion": cfg.RecBound, "slicecap": cfg.SliceCap}
	// fresh global state per entry
	TS = NewTermStore()
	True = TS.intern(&Term{op: "const", sort: SBool, ival: bigOne})
	False = TS.intern(&Term{op: "const", sort: SBool, ival: bigZero})
	outputs = nil
	upperMemo = map[*Term][2]int{}
	builderAcc = map[*Object]Value{}
	nonNegMemo = map[*Term]bool{}
	constLeafMemo = map[*Term]bool{}
	pushMemo = map[[3]int]*Term{}
	parseMemo = map[*Term][2]*Term{}
	wrapped = map[*Object]RefV{}
	shortIDCount = 0
	ex := NewExec(prog, epkg, cfg)
	ex.trace = trace
	if os.Getenv("GOSMT_PROFILE") != "" {
		termProfile = map[string]int{}
		defer func() {
			type kv struct {
				k string
				v int
			}
			var l []kv
			for k, v := range termProfile {
				l = append(l, kv{k, v})
			}
			sort.Slice(l, func(i, j int) bool { return l[i].v > l[j].v })
			for i := 0; i < len(l) && i < 25; i++ {
				fmt.Fprintf(os.Stderr, "PROFILE %8d %s\n", l[i].v, l[i].k)
			}
		}()
	}
	ex.world = NewWorld(ex)
	t0 := time.Now()
	func() {
		defer func() {
			if r := recover(); r != nil {
				if u, ok := r.(unsupportedErr); ok {
					res.Status = "unsupported"
					res.Err = u.msg
					if len(ex.stack) > 0 {
						res.Err += " (in " + ex.stack[len(ex.stack)-1].String() + ")"
					}
					return
				}
				res.Status = "error"
				res.Err = fmt.Sprintf("%v\n%s", r, debug.Stack())
			}
		}()
		// package initialisation (globals such as validTransitions)
		initFn := epkg.Func("init")
		ex.callFunction(initFn, nil, nil, True, initFn.Pos())
		ex.encoded = map[string]int{}
		ex.calls = 0
		fn := epkg.Func(entry)
		if fn == nil {
			panic(fmt.Sprintf("no such entry function %s", entry))
		}
		ex.callFunction(fn, nil, nil, True, fn.Pos())
		res.Status = "ok"
	}()
	res.EncodeTime = time.Since(t0).Seconds()
	res.Terms = len(TS.all)
	res.Calls = ex.calls
	res.Models = ex.modelsHit
	res.Notes = ex.notes
	res.Meta = ex.scenarioMeta
	res.Literals = map[string]int64{}
	for k, v := range Lits.byStr {
		res.Literals[k] = v
	}
	res.Nondets = map[string]string{}
	for _, nd := range ex.nondets {
		res.Nondets[nd.Name] = nd.Kind
	}
	for name := range ex.encoded {
		res.Functions[name] = fnHash(prog, name)
	}
	if res.Status != "ok" {
		return
	}
	// discharge
	type job struct {
		i int
		o *Obligation
	}
	var obls []*Obligation
	trivial := map[string][]*Obligation{}
	for _, o := range ex.obls {
		if noPanics && o.Kind == "panic" {
			continue
		}
		if o.Bad.IsFalse() {
			// trivially discharged by simplification; remembered per label for the vacuity verdict
			if o.Kind == "assert" && !o.Guard.IsFalse() {
				trivial[o.Label] = append(trivial[o.Label], o)
			}
			continue
		}
		if o.Kind == "assert" && onlyPrefixes != "" {
			keep := false
			for _, p := range strings.Split(onlyPrefixes, ",") {
				if strings.HasPrefix(o.Label, p) {
					keep = true
				}
			}
			if !keep {
				continue
			}
		}
		obls = append(obls, o)
	}
	// group panic obligations into one disjunctive query per run when many
	if os.Getenv("GOSMT_PROFILE") != "" {
		kinds := map[string]int{}
		for _, o := range obls {
			kinds[o.Kind+":"+o.Label]++
		}
		fmt.Fprintf(os.Stderr, "PROFILE obligations=%d terms=%d\n", len(obls), len(TS.all))
		for k, v := range kinds {
			if v > 20 {
				fmt.Fprintf(os.Stderr, "PROFILE   %d x %s\n", v, k)
			}
		}
	}
	res.Obligations = make([]OblResult, len(obls))
	var wg sync.WaitGroup
	sem := make(chan struct{}, cap(pool.procs))
	// panic / unwinding obligations are first tried in disjunctive batches
	done := make([]bool, len(obls))
	var batch []int
	var batches [][]int
	for i, o := range obls {
		if o.Kind == "panic" || o.Kind == "unwind" {
			batch = append(batch, i)
			if len(batch) == 64 {
				batches = append(batches, batch)
				batch = nil
			}
		}
	}
	if len(batch) > 0 {
		batches = append(batches, batch)
	}
	for _, b := range batches {
		wg.Add(1)
		sem <- struct{}{}
		go func(b []int) {
			defer wg.Done()
			defer func() { <-sem }()
			tsMu.Lock()
			var alts []*Term
			for _, i := range b {
				alts = append(alts, And(append(append([]*Term(nil), obls[i].Assumps...), obls[i].Bad)...))
			}
			script, _, _ := EmitQuery([]*Term{Or(alts...)}, ex.axioms)
			tsMu.Unlock()
			r := pool.Query(script, nil, timeout)
			if r.Status == "unsat" {
				for _, i := range b {
					done[i] = true
					res.Obligations[i] = OblResult{Label: obls[i].Label, Kind: obls[i].Kind, Pos: obls[i].Pos, Status: "unsat", Reach: "skipped",
						Time: r.Time / float64(len(b)), Size: len(script) / len(b)}
				}
			}
		}(b)
	}
	wg.Wait()
	for i, o := range obls {
		if done[i] {
			continue
		}
		wg.Add(1)
		sem <- struct{}{}
		go func(i int, o *Obligation) {
			defer wg.Done()
			defer func() { <-sem }()
			res.Obligations[i] = discharge(ex, o, pool, pool2, timeout, dumpDir, i)
		}(i, o)
	}
	wg.Wait()
	// a label whose solved instances are all vacuous may still have instances the simplifier
	// discharged (assertion folded to true): one reachability query over their guards decides
	// whether the assertion is reached at all
	allVac := map[string]bool{}
	for _, r := range res.Obligations {
		if r.Kind != "assert" {
			continue
		}
		if _, seen := allVac[r.Label]; !seen {
			allVac[r.Label] = true
		}
		if r.Status != "vacuous" {
			allVac[r.Label] = false
		}
	}
	for label, vac := range allVac {
		ts := trivial[label]
		if os.Getenv("GOSMT_PROFILE") != "" {
			fmt.Fprintf(os.Stderr, "VACCHECK %q allvac=%v trivial=%d\n", label, vac, len(ts))
		}
		if !vac || len(ts) == 0 {
			continue
		}
		var gs []*Term
		for _, o := range ts {
			gs = append(gs, o.Guard)
		}
		last := ts[len(ts)-1]
		script, _, _ := EmitQuery(append(append([]*Term(nil), last.Assumps...), Or(gs...)), ex.axioms)
		r := pool.Query(script, nil, timeout)
		if r.Status == "sat" {
			res.Obligations = append(res.Obligations, OblResult{Label: label, Kind: "assert", Pos: last.Pos, Status: "unsat", Reach: "sat", Time: r.Time, Size: len(script)})
		}
	}
	// reachability witnesses
	for label, g := range ex.reachLabels {
		script, _, _ := EmitQuery(append(append([]*Term(nil), ex.assumptions...), g), ex.axioms)
		r := pool.Query(script, nil, timeout)
		res.Reach[label] = r.Status
	}
	res.SolverTime = pool.Stats.Time
	res.SolverMax = pool.Stats.MaxTime
	res.Queries = pool.Stats.Queries
	if pool2 != nil {
		res.Queries += pool2.Stats.Queries
		res.SolverTime += pool2.Stats.Time
	}
	sort.SliceStable(res.Obligations, func(i, j int) bool { return res.Obligations[i].Label < res.Obligations[j].Label })
	return
}

func discharge(ex *Exec, o *Obligation, pool, pool2 *SolverPool, timeout int, dumpDir string, idx int) OblResult {
	or := OblResult{Label: o.Label, Kind: o.Kind, Pos: o.Pos}
	asserts := append(append([]*Term(nil), o.Assumps...), o.Bad)
	tsMu.Lock()
	script, vars, cone := EmitQuery(asserts, ex.axioms)
	watch := ex.watchTerms(cone)
	tsMu.Unlock()
	or.Size = len(script)
	if dumpDir != "" {
		os.MkdirAll(dumpDir, 0755)
		os.WriteFile(filepath.Join(dumpDir, fmt.Sprintf("q%03d-%s.smt2", idx, sanitize(o.Label))), []byte(script+"(check-sat)\n"), 0644)
	}
	var exprs []string
	for _, v := range vars {
		exprs = append(exprs, smtName(v.name))
	}
	seenE := map[string]bool{}
	for _, w := range watch {
		for _, t := range append([]*Term{w}, w.args...) {
			r := t.ref()
			if t.op != "const" && t.op != "var" && !seenE[r] {
				seenE[r] = true
				exprs = append(exprs, r)
			}
		}
	}
	r := pool.Query(script, exprs, timeout)
	if r.Status == "sat" {
		// prefer a model that the native replay can stage: features it cannot force (a lock that
		// is busy only at the second attempt, an unreadable result file, ...) are switched off when
		// a counterexample without them exists
		var extra strings.Builder
		n := 0
		for _, v := range vars {
			if v.sort == SBool && preferFalse(v.name) {
				extra.WriteString("(assert (not " + smtName(v.name) + "))\n")
				n++
			}
		}
		if n > 0 {
			r2 := pool.Query(script+extra.String(), exprs, timeout)
			if r2.Status == "sat" {
				r = r2
			}
		}
	}
	or.Status = r.Status
	or.Time = r.Time
	or.Err = r.Err
	if r.Status == "sat" {
		or.Model = map[string]string{}
		val := func(t *Term) string {
			switch t.op {
			case "const":
				if t.sort == SBool {
					return t.ref()
				}
				return t.ival.String()
			case "var":
				return r.Model[t.name]
			}
			return r.Model[t.ref()]
		}
		for _, v := range vars {
			or.Model[v.name] = r.Model[v.name]
		}
		for _, w := range watch {
			var as []string
			for _, a := range w.args {
				as = append(as, val(a))
			}
			or.Model["@"+w.op[3:]+"("+strings.Join(as, ",")+")"] = val(w)
		}
	}
	if pool2 != nil && (r.Status == "sat" || r.Status == "unsat") {
		r2 := pool2.Query(script, nil, timeout)
		or.Second = r2.Status
		if r2.Status != r.Status && (r2.Status == "sat" || r2.Status == "unsat") {
			or.Status = "error"
			or.Err = "solver disagreement: " + r.Status + " vs " + r2.Status
		}
	}
	// reachability twin for assertions that were discharged
	if o.Kind == "assert" && or.Status == "unsat" && o.Bad == o.Guard {
		or.Reach = "n/a (assert false: unsat means the guarded situation cannot occur)"
	} else if o.Kind == "assert" && or.Status == "unsat" {
		tsMu.Lock()
		s2, _, _ := EmitQuery(append(append([]*Term(nil), o.Assumps...), o.Guard), ex.axioms)
		tsMu.Unlock()
		r2 := pool.Query(s2, nil, timeout)
		or.Reach = r2.Status
		if r2.Status == "unsat" {
			or.Status = "vacuous"
		}
	} else {
		or.Reach = "skipped"
	}
	return or
}

func preferFalse(name string) bool {
	if strings.HasPrefix(name, "world.lock.busy!") {
		return true // if the violation needs a busy lock the re-query is unsat and the first model stands
	}
	return name == "world.evidence.bad" || strings.HasPrefix(name, "world.lock.missing!")
}

var tsMu sync.Mutex
var onlyPrefixes string

func sanitize(s string) string {
	var sb strings.Builder
	for _, c := range s {
		if c >= 'a' && c <= 'z' || c >= 'A' && c <= 'Z' || c >= '0' && c <= '9' || c == '-' || c == '_' {
			sb.WriteRune(c)
		} else {
			sb.WriteByte('_')
		}
	}
	s = sb.String()
	if len(s) > 60 {
		s = s[:60]
	}
	return s
}

var allFns map[string]*ssa.Function

func fnHash(prog *ssa.Program, name string) string {
	if allFns == nil {
		allFns = map[string]*ssa.Function{}
		for fn := range ssautil.AllFunctions(prog) {
			allFns[fn.String()] = fn
		}
	}
	for _, fn := range []*ssa.Function{allFns[name]} {
		if fn != nil {
			var sb strings.Builder
			fn.WriteTo(&sb)
			h := sha256.Sum256([]byte(sb.String()))
			pos := prog.Fset.Position(fn.Pos())
			return fmt.Sprintf("%s:%d sha256:%x", shortPos(pos.Filename), pos.Line, h[:6])
		}
	}
	return ""
}
