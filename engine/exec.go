// Guarded, merged, unrolled symbolic execution of go/ssa (DESIGN 2.2).
package main

import (
	"fmt"
	"os"
	"math/big"
	"go/constant"
	"go/token"
	"go/types"
	"sort"
	"strings"

	"golang.org/x/tools/go/ssa"
)

var termProfile map[string]int

type Obligation struct {
	Label   string
	Kind    string // assert | panic | unwind
	Guard   *Term  // reachability condition (incl. not-yet-panicked)
	Bad     *Term  // violation condition: sat(assumps ∧ Bad) means violated
	Assumps []*Term
	Pos     string
	Watch   []*Term
}

type Edge struct {
	g    *Term
	from *ssa.BasicBlock // nil = self-skip edge (phis keep their value)
}

type RetEdge struct {
	g    *Term
	vals []Value
}

type deferred struct {
	g    *Term
	call *ssa.CallCommon
	fn   Value
	args []Value
}

type Frame struct {
	fn       *ssa.Function
	li       *loopInfo
	regs     map[ssa.Value]Value
	incoming map[*ssa.BasicBlock][]Edge
	rets     []RetEdge
	defers   []deferred
	guard    *Term
	cur      *ssa.BasicBlock
	bindings []Value
	params   []Value
	sparseIdx map[ssa.Value]int // index register -> physical cell (range driver over sparse slices)
	nilTested map[*ssa.BasicBlock]nilTest // block entered because m[k] == nil
}

type nilTest struct {
	m   RefV
	key Value
}

type Loop struct {
	header *ssa.BasicBlock
	body   map[*ssa.BasicBlock]bool
	parent *Loop
}

type loopInfo struct {
	rpo       []*ssa.BasicBlock
	innermost map[*ssa.BasicBlock]*Loop
	escapes   map[ssa.Value]bool // defined in a loop, used outside it: needs guarded re-definition
}

type Config struct {
	AssumeUnwind map[string]int // function name -> loop bound whose excess is assumed away (stated cut)
	LoopBound int
	RecBound  int
	SliceCap  int
	MaxCalls  int
}

type Exec struct {
	prog        *ssa.Program
	pkg         *ssa.Package
	globals     map[*ssa.Global]*Object
	nextID      int
	assumptions []*Term
	panicked    *Term
	obls        []*Obligation
	stack       []*ssa.Function
	cfg         Config
	loops       map[*ssa.Function]*loopInfo
	encoded     map[string]int
	modelsHit   map[string]int
	nondets     []*NondetVar
	nowCount    int
	lastNow     *Term
	calls       int
	world       *World
	trace       bool
	reachLabels map[string]*Term
	notes       []string
	permute     bool
	entryHooks  map[*ssa.Function]func(fr *Frame)
	physIndex   map[*Object]bool // arrays currently indexed physically (sort models)
	scenarioMeta map[string]interface{}
}

type NondetVar struct {
	Name string
	Kind string // atom | bool | int | time
	T    *Term
}

func NewExec(prog *ssa.Program, pkg *ssa.Package, cfg Config) *Exec {
	return &Exec{prog: prog, pkg: pkg, globals: map[*ssa.Global]*Object{}, panicked: False, cfg: cfg,
		loops: map[*ssa.Function]*loopInfo{}, encoded: map[string]int{}, modelsHit: map[string]int{},
		reachLabels: map[string]*Term{}, scenarioMeta: map[string]interface{}{}, physIndex: map[*Object]bool{}}
}

func (ex *Exec) newObject(name string, t types.Type, v Value) *Object {
	ex.nextID++
	return &Object{id: ex.nextID, name: name, val: v, typ: t}
}

func (ex *Exec) newMap(name string, t *types.Map) *MapObject {
	ex.nextID++
	return &MapObject{id: ex.nextID, name: name, typ: t}
}

func (ex *Exec) newBox() *Box {
	ex.nextID++
	return &Box{id: ex.nextID, Keys: map[string]*Term{}, Malformed: False}
}

func (ex *Exec) assume(t *Term) {
	if t.IsTrue() {
		return
	}
	ex.assumptions = append(ex.assumptions, t)
}

func (ex *Exec) addPanic(fr *Frame, cond *Term, kind string, pos token.Pos) {
	c := And(fr.guard, cond)
	if c.IsFalse() {
		return
	}
	p := ex.prog.Fset.Position(pos).String()
	ex.obls = append(ex.obls, &Obligation{Label: kind + "@" + shortPos(p), Kind: "panic", Guard: And(fr.guard, Not(ex.panicked)),
		Bad: And(c, Not(ex.panicked)), Assumps: append([]*Term(nil), ex.assumptions...), Pos: p})
	// (panic obligations are discharged separately; once all are unsat, not-panicked is implied, so it is not conjoined to later guards)
}

func shortPos(p string) string {
	if i := strings.LastIndex(p, "/"); i >= 0 {
		return p[i+1:]
	}
	return p
}

// ---- loops ----

func (ex *Exec) loopInfoFor(fn *ssa.Function) *loopInfo {
	if li, ok := ex.loops[fn]; ok {
		return li
	}
	li := &loopInfo{innermost: map[*ssa.BasicBlock]*Loop{}}
	// reverse postorder
	seen := map[*ssa.BasicBlock]bool{}
	var post []*ssa.BasicBlock
	var dfs func(b *ssa.BasicBlock)
	dfs = func(b *ssa.BasicBlock) {
		seen[b] = true
		for _, s := range b.Succs {
			if !seen[s] {
				dfs(s)
			}
		}
		post = append(post, b)
	}
	if len(fn.Blocks) > 0 {
		dfs(fn.Blocks[0])
	}
	for i := len(post) - 1; i >= 0; i-- {
		li.rpo = append(li.rpo, post[i])
	}
	idx := map[*ssa.BasicBlock]int{}
	for i, b := range li.rpo {
		idx[b] = i
	}
	loops := map[*ssa.BasicBlock]*Loop{}
	for _, u := range li.rpo {
		for _, h := range u.Succs {
			if idx[h] <= idx[u] {
				if !h.Dominates(u) {
					panic(unsupported("irreducible control flow in %s", fn))
				}
				L := loops[h]
				if L == nil {
					L = &Loop{header: h, body: map[*ssa.BasicBlock]bool{h: true}}
					loops[h] = L
				}
				// reverse reachability from u to h
				var st []*ssa.BasicBlock
				if !L.body[u] {
					L.body[u] = true
					st = append(st, u)
				}
				for len(st) > 0 {
					x := st[len(st)-1]
					st = st[:len(st)-1]
					for _, p := range x.Preds {
						if seen[p] && !L.body[p] {
							L.body[p] = true
							st = append(st, p)
						}
					}
				}
			}
		}
	}
	var all []*Loop
	for _, L := range loops {
		all = append(all, L)
	}
	sort.Slice(all, func(i, j int) bool { return len(all[i].body) < len(all[j].body) })
	for i, L := range all {
		for _, M := range all[i+1:] {
			if M.body[L.header] && M != L {
				L.parent = M
				break
			}
		}
	}
	for _, b := range li.rpo {
		for _, L := range all { // smallest first
			if L.body[b] {
				li.innermost[b] = L
				break
			}
		}
	}
	li.escapes = map[ssa.Value]bool{}
	for _, b := range li.rpo {
		L := li.innermost[b]
		if L == nil {
			continue
		}
		for _, ins := range b.Instrs {
			v, ok := ins.(ssa.Value)
			if !ok || v.Referrers() == nil {
				continue
			}
			for _, ref := range *v.Referrers() {
				if rb := ref.Block(); rb != nil && !L.body[rb] {
					li.escapes[v] = true
				}
			}
		}
	}
	ex.loops[fn] = li
	return li
}

func (ex *Exec) execRegion(fr *Frame, L *Loop) {
	for _, b := range fr.li.rpo {
		if L != nil && !L.body[b] {
			continue
		}
		child := fr.li.innermost[b]
		for child != nil && child.parent != L && child != L {
			child = child.parent
		}
		if child != nil && child != L {
			if b == child.header {
				ex.execLoop(fr, child)
			}
			continue
		}
		if L != nil && b == L.header {
			continue
		}
		ex.execBlock(fr, b)
		if L == nil && b == fr.fn.Blocks[0] && ex.entryHooks != nil {
			if h, ok := ex.entryHooks[fr.fn]; ok {
				delete(ex.entryHooks, fr.fn)
				h(fr)
			}
		}
	}
}

func edgesGuard(es []Edge) *Term {
	var gs []*Term
	for _, e := range es {
		gs = append(gs, e.g)
	}
	return Or(gs...)
}

// sparseRange recognises go/ssa's range-over-slice loop
//   header: phis...; i' = i + 1; ok = i' < len; if ok goto body else done
//   body:   &x[i'] ...
// over a sparse slice and drives it cell by cell: iteration k runs the body for physical cell
// k under its presence guard and routes absent cells straight to the next iteration (the same
// scheme as map iteration), so every element keeps its identity instead of being merged by
// logical position.
func (ex *Exec) sparseRange(fr *Frame, L *Loop) bool {
	h := L.header
	if h.Comment != "rangeindex.loop" || len(h.Succs) != 2 {
		return false
	}
	n := len(h.Instrs)
	if n < 4 {
		return false
	}
	iff, ok1 := h.Instrs[n-1].(*ssa.If)
	cmp, ok2 := h.Instrs[n-2].(*ssa.BinOp)
	inc, ok3 := h.Instrs[n-3].(*ssa.BinOp)
	if !ok1 || !ok2 || !ok3 || iff.Cond != cmp || cmp.X != inc {
		return false
	}
	for _, ins := range h.Instrs[:n-3] {
		if _, isPhi := ins.(*ssa.Phi); !isPhi {
			return false
		}
	}
	body, done := h.Succs[0], h.Succs[1]
	var sl ssa.Value
	for _, ins := range body.Instrs {
		if ia, ok := ins.(*ssa.IndexAddr); ok && ia.Index == inc {
			sl = ia.X
			break
		}
	}
	if sl == nil {
		return false
	}
	if _, isSlice := sl.Type().Underlying().(*types.Slice); !isSlice {
		return false
	}
	sv, ok := ex.operand(fr, sl).(RefV)
	if ex.trace {
		fmt.Printf("SPARSERANGE %s sparse=%v alts=%d\n", fr.fn.Name(), ok && isSparse(sv), len(sv.Alts))
	}
	if !ok || !isSparse(sv) {
		return false
	}
	phys := 0
	for _, a := range sv.Alts {
		if st := a.Tgt.(SliceT); st.phys() > phys {
			phys = st.phys()
		}
	}
	if fr.sparseIdx == nil {
		fr.sparseIdx = map[ssa.Value]int{}
	}
	rank := BVC(0, 64)
	for k := 0; k < phys; k++ {
		edges := fr.incoming[h]
		delete(fr.incoming, h)
		g := edgesGuard(edges)
		if g.IsFalse() {
			break
		}
		fr.guard = g
		fr.cur = h
		ex.evalPhis(fr, h, edges)
		pk := False
		for _, a := range sv.Alts {
			pk = Or(pk, And(a.C, a.Tgt.(SliceT).presAt(k)))
		}
		fr.regs[inc] = IntV{rank, true}
		fr.regs[cmp] = BoolV{pk}
		fr.sparseIdx[inc] = k
		fr.addEdge(body, And(g, pk), h)
		fr.addEdge(h, And(g, Not(pk)), nil)
		rank = BVBin("bvadd", rank, Ite(pk, BVC(1, 64), BVC(0, 64)))
		ex.execRegion(fr, L)
	}
	edges := fr.incoming[h]
	delete(fr.incoming, h)
	if g := edgesGuard(edges); !g.IsFalse() {
		fr.guard = g
		fr.cur = h
		ex.evalPhis(fr, h, edges)
		fr.regs[cmp] = BoolV{False}
		fr.addEdge(done, g, h)
	}
	delete(fr.sparseIdx, inc)
	return true
}

func (ex *Exec) execLoop(fr *Frame, L *Loop) {
	if edgesGuard(fr.incoming[L.header]).IsFalse() {
		delete(fr.incoming, L.header)
		return
	}
	if ex.sparseRange(fr, L) {
		return
	}
	for iter := 0; ; iter++ {
		g := edgesGuard(fr.incoming[L.header])
		if g.IsFalse() {
			delete(fr.incoming, L.header)
			return
		}
		if ab, ok := ex.cfg.AssumeUnwind[fr.fn.Name()]; ok && iter >= ab {
			ex.assume(Not(g))
			ex.notes = append(ex.notes, fmt.Sprintf("CUT: loop in %s assumed to exit within %d iterations", fr.fn.Name(), ab))
			delete(fr.incoming, L.header)
			return
		}
		if iter >= ex.cfg.LoopBound {
			if ex.trace {
				fmt.Printf("UNWIND %s header=%d edges=%d g=%s\n", fr.fn, L.header.Index, len(fr.incoming[L.header]), g.Pretty(6))
			}
			p := ex.prog.Fset.Position(L.header.Instrs[0].Pos()).String()
			ex.obls = append(ex.obls, &Obligation{Label: "unwind-loop@" + fr.fn.Name() + ":" + shortPos(p), Kind: "unwind",
				Guard: True, Bad: And(g, Not(ex.panicked)), Assumps: append([]*Term(nil), ex.assumptions...), Pos: p})
			// paths that would iterate further are cut (treated like a panic for later assertions)
			// paths beyond the bound are excluded by the unwinding assertion above
			delete(fr.incoming, L.header)
			return
		}
		ex.execBlock(fr, L.header)
		ex.execRegion(fr, L)
	}
}

func (fr *Frame) addEdge(to *ssa.BasicBlock, g *Term, from *ssa.BasicBlock) {
	if g.IsFalse() {
		return
	}
	fr.incoming[to] = append(fr.incoming[to], Edge{g, from})
}

func (fr *Frame) set(v ssa.Value, val Value) {
	if old, ok := fr.regs[v]; ok && !fr.guard.IsTrue() && fr.li.escapes[v] {
		if _, isIter := val.(*RangeIterV); !isIter {
			val = MergeV(fr.guard, val, old)
		}
	}
	fr.regs[v] = val
}

// evalPhis evaluates the phi nodes of b simultaneously for the given incoming edges.
func (ex *Exec) evalPhis(fr *Frame, b *ssa.BasicBlock, edges []Edge) int {
	var phiVals []Value
	var phis []*ssa.Phi
	for _, ins := range b.Instrs {
		phi, ok := ins.(*ssa.Phi)
		if !ok {
			break
		}
		var val Value
		first := true
		for _, e := range edges {
			var v Value
			if e.from == nil {
				v = fr.regs[phi]
			} else {
				pi := -1
				for i, p := range b.Preds {
					if p == e.from {
						pi = i
						break
					}
				}
				v = ex.operand(fr, phi.Edges[pi])
			}
			if first {
				val = v
				first = false
			} else {
				val = MergeV(e.g, v, val)
			}
		}
		if coalesceSlices {
			if sl, ok := phi.Type().Underlying().(*types.Slice); ok {
				if rv, ok := val.(RefV); ok && len(rv.Alts) >= 2 {
					val = ex.coalesce(rv, sl.Elem())
				}
			}
		}
		phis = append(phis, phi)
		phiVals = append(phiVals, val)
	}
	for i, phi := range phis {
		fr.set(phi, phiVals[i])
	}
	return len(phis)
}

func (ex *Exec) execBlock(fr *Frame, b *ssa.BasicBlock) {
	edges := fr.incoming[b]
	delete(fr.incoming, b)
	g := edgesGuard(edges)
	if g.IsFalse() {
		return
	}
	fr.guard = g
	fr.cur = b
	nphi := ex.evalPhis(fr, b, edges)
	phis := b.Instrs[:nphi]
	for _, ins := range b.Instrs[len(phis):] {
		t0 := len(TS.all)
		ex.step(fr, ins)
		if termProfile != nil && len(TS.all)-t0 > 2000 {
			isInlined := false
			if c, ok := ins.(*ssa.Call); ok {
				if f, ok := c.Call.Value.(*ssa.Function); ok && ex.lookupModel(f) == nil {
					isInlined = true
				}
				if _, ok := c.Call.Value.(*ssa.Function); !ok && !c.Call.IsInvoke() {
					if _, isB := c.Call.Value.(*ssa.Builtin); !isB {
						isInlined = true
					}
				}
			}
			if !isInlined {
				fmt.Fprintf(os.Stderr, "PROFILE-INS %d terms: %s in %s\n", len(TS.all)-t0, ins, fr.fn.Name())
			}
		}
		if fr.guard.IsFalse() {
			return
		}
	}
}

// ---- calling ----

func (ex *Exec) callFunction(fn *ssa.Function, args []Value, bindings []Value, guard *Term, pos token.Pos) Value {
	if guard.IsFalse() {
		return ex.zeroResults(fn.Signature)
	}
	if fn.Blocks == nil {
		panic(unsupported("call to function without body: %s at %s", fn, ex.prog.Fset.Position(pos)))
	}
	depth := 0
	for _, f := range ex.stack {
		if f == fn {
			depth++
		}
	}
	if depth > ex.cfg.RecBound {
		p := ex.prog.Fset.Position(pos).String()
		ex.obls = append(ex.obls, &Obligation{Label: "unwind-rec@" + fn.Name(), Kind: "unwind", Guard: True,
			Bad: And(guard, Not(ex.panicked)), Assumps: append([]*Term(nil), ex.assumptions...), Pos: p})
		// see unwinding assertion above
		return ex.zeroResults(fn.Signature)
	}
	ex.calls++
	if ex.cfg.MaxCalls > 0 && ex.calls > ex.cfg.MaxCalls {
		panic(unsupported("call budget exceeded (%d inlined calls)", ex.calls))
	}
	ex.encoded[fn.String()]++
	fr := &Frame{fn: fn, li: ex.loopInfoFor(fn), regs: map[ssa.Value]Value{}, incoming: map[*ssa.BasicBlock][]Edge{}, bindings: bindings, params: args}
	for i, p := range fn.Params {
		fr.regs[p] = args[i]
	}
	for i, fv := range fn.FreeVars {
		fr.regs[fv] = bindings[i]
	}
	fr.addEdge(fn.Blocks[0], guard, nil)
	ex.stack = append(ex.stack, fn)
	if ex.trace {
		fmt.Printf("%s> %s\n", strings.Repeat(" ", len(ex.stack)), fn)
	}
	t0 := len(TS.all)
	ex.execRegion(fr, nil)
	ex.stack = ex.stack[:len(ex.stack)-1]
	if termProfile != nil {
		termProfile[fn.Name()] += len(TS.all) - t0 // inclusive of callees
	}
	return ex.mergeRets(fn.Signature, fr.rets)
}

func (ex *Exec) zeroResults(sig *types.Signature) Value {
	res := sig.Results()
	switch res.Len() {
	case 0:
		return nil
	case 1:
		return ZeroValue(res.At(0).Type())
	}
	return ZeroValue(res)
}

func (ex *Exec) mergeRets(sig *types.Signature, rets []RetEdge) Value {
	n := sig.Results().Len()
	if n == 0 {
		return nil
	}
	if len(rets) == 0 {
		return ex.zeroResults(sig)
	}
	acc := make([]Value, n)
	copy(acc, rets[len(rets)-1].vals)
	for i := len(rets) - 2; i >= 0; i-- {
		for j := 0; j < n; j++ {
			acc[j] = MergeV(rets[i].g, rets[i].vals[j], acc[j])
		}
	}
	if n == 1 {
		return acc[0]
	}
	return TupleV{E: acc}
}

// callValue calls a function value (closure union) under guard.
func (ex *Exec) callValue(fv Value, args []Value, guard *Term, pos token.Pos, sig *types.Signature) Value {
	r, ok := fv.(RefV)
	if !ok {
		panic(unsupported("call of non-function value %T", fv))
	}
	var acc Value
	first := true
	for _, a := range r.Alts {
		ft, ok := a.Tgt.(FuncT)
		if !ok {
			panic(unsupported("call target %T", a.Tgt))
		}
		g := And(guard, a.C)
		if g.IsFalse() {
			continue
		}
		var res Value
		if m := ex.lookupModel(ft.Fn); m != nil {
			res = m(ex, &callCtx{guard: g, pos: pos, fn: ft.Fn, args: args})
		} else {
			res = ex.callFunction(ft.Fn, args, ft.Bindings, g, pos)
		}
		if first {
			acc = res
			first = false
		} else if res != nil {
			acc = MergeV(a.C, res, acc)
		}
	}
	if first {
		return ex.zeroResults(sig)
	}
	return acc
}

// ---- operands ----

func (ex *Exec) operand(fr *Frame, v ssa.Value) Value {
	switch x := v.(type) {
	case *ssa.Const:
		return ex.constValue(x)
	case *ssa.Global:
		return Ref1(AddrT{Obj: ex.globalObj(x)})
	case *ssa.Function:
		return Ref1(FuncT{Fn: x})
	case *ssa.Builtin:
		return Ref1(FuncT{Builtin: x.Name()})
	}
	val, ok := fr.regs[v]
	if !ok {
		panic(fmt.Sprintf("undefined register %s in %s", v.Name(), fr.fn))
	}
	return val
}

func (ex *Exec) constValue(c *ssa.Const) Value {
	t := c.Type()
	if c.Value == nil {
		return ZeroValue(t)
	}
	if isTimeType(t) {
		return ZeroValue(t)
	}
	switch u := t.Underlying().(type) {
	case *types.Basic:
		switch {
		case u.Info()&types.IsBoolean != 0:
			return BoolV{BoolC(constant.BoolVal(c.Value))}
		case u.Info()&types.IsString != 0:
			return StrLit(constant.StringVal(c.Value))
		case u.Info()&types.IsInteger != 0:
			w, s, _ := intInfo(u)
			bi, _ := new(big.Int).SetString(c.Value.ExactString(), 10)
			if bi == nil {
				i64, _ := constant.Int64Val(constant.ToInt(c.Value))
				return IntV{BVC(i64, w), s}
			}
			return IntV{BVCBig(bi, w), s}
		}
	}
	panic(unsupported("constant of type %s", t))
}

func (ex *Exec) globalObj(g *ssa.Global) *Object {
	if o, ok := ex.globals[g]; ok {
		return o
	}
	et := g.Type().(*types.Pointer).Elem()
	var v Value
	if g.Pkg != ex.pkg && types.Identical(et, types.Universe.Lookup("error").Type()) {
		// sentinel error of another package: a unique non-nil error value
		eo := ex.newObject("sentinel:"+g.String(), nil, StructV{F: []Value{StrV{T: Var("errmsg:"+g.String(), SInt)}}})
		v = Ref1(IfaceT{Typ: sentinelType(g.String()), V: Ref1(AddrT{Obj: eo})})
	} else if _, isPtr := et.Underlying().(*types.Pointer); isPtr && g.Pkg != ex.pkg {
		// e.g. os.Stdout: a distinct non-nil opaque object
		v = Ref1(AddrT{Obj: ex.newObject("extern:"+g.String(), nil, StructV{})})
	} else {
		v = ZeroValue(et)
		if g.Pkg != ex.pkg {
			ex.notes = append(ex.notes, "extern global used with zero value: "+g.String())
		}
	}
	o := ex.newObject("global:"+g.String(), et, v)
	ex.globals[g] = o
	return o
}

var sentinelTypes = map[string]types.Type{}

func sentinelType(name string) types.Type {
	if t, ok := sentinelTypes[name]; ok {
		return t
	}
	tn := types.NewTypeName(token.NoPos, nil, "sentinel<"+name+">", nil)
	t := types.NewNamed(tn, types.NewStruct(nil, nil), nil)
	sentinelTypes[name] = t
	return t
}

// ---- memory ----

func (ex *Exec) load(fr *Frame, ptr Value, t types.Type, pos token.Pos) Value {
	r, ok := ptr.(RefV)
	if !ok {
		panic(fmt.Sprintf("load through %T", ptr))
	}
	ex.addPanic(fr, r.IsNilTerm(), "nil-deref", pos)
	if len(r.Alts) == 0 {
		return ZeroValue(t)
	}
	var acc Value
	for i, a := range r.Alts {
		at, ok := a.Tgt.(AddrT)
		if !ok {
			panic(unsupported("load through target %T", a.Tgt))
		}
		v := getPath(at.Obj.val, at.P)
		if i == 0 {
			acc = v
		} else {
			acc = MergeV(a.C, v, acc)
		}
	}
	return acc
}

func (ex *Exec) store(fr *Frame, ptr Value, val Value, pos token.Pos) {
	r, ok := ptr.(RefV)
	if !ok {
		panic(fmt.Sprintf("store through %T", ptr))
	}
	ex.addPanic(fr, r.IsNilTerm(), "nil-deref", pos)
	for _, a := range r.Alts {
		at, ok := a.Tgt.(AddrT)
		if !ok {
			panic(unsupported("store through target %T", a.Tgt))
		}
		c := And(fr.guard, a.C)
		if c.IsFalse() {
			continue
		}
		if _, isArr := at.Obj.val.(ArrayV); isArr && len(at.P) > 0 {
			at.Obj.markDirty(at.P[0])
		}
		if at.Obj.allocG == c {
			c = True // the object only exists on these paths
		}
		at.Obj.val = setPath(at.Obj.val, at.P, func(old Value) Value { return MergeV(c, val, old) })
	}
}

func extendPath(p []int, i int) []int {
	np := make([]int, len(p)+1)
	copy(np, p)
	np[len(p)] = i
	return np
}

// ---- maps ----

func keyEq(a, b Value) *Term { return EqV(a, b) }

func (ex *Exec) mapLookup(m RefV, key Value, vt types.Type) (Value, *Term) {
	val := ZeroValue(vt)
	found := False
	_, isRef := val.(RefV)
	var alts []Alt
	for _, a := range m.Alts {
		mt, ok := a.Tgt.(MapT)
		if !ok {
			panic(unsupported("map lookup on %T", a.Tgt))
		}
		mt.M = mt.M.resolve()
		for _, e := range mt.M.entries {
			hit := And(a.C, e.Live, keyEq(e.Key, key))
			if hit.IsFalse() {
				continue
			}
			if isRef {
				// live keys are pairwise distinct, so hits are mutually exclusive: the union is
				// built without priority negations
				for _, va := range e.Val.(RefV).Alts {
					alts = addAlt(alts, And(hit, va.C), va.Tgt)
				}
			} else {
				val = MergeV(hit, e.Val, val)
			}
			found = Or(found, hit)
		}
	}
	if isRef {
		return RefV{Alts: alts}, found
	}
	return val, found
}

func (ex *Exec) mapUpdate(fr *Frame, m RefV, key, val Value, pos token.Pos) {
	ex.addPanic(fr, m.IsNilTerm(), "nil-map-write", pos)
	for _, a := range m.Alts {
		mt := a.Tgt.(MapT)
		mt.M = mt.M.resolve()
		g := And(fr.guard, a.C)
		if g.IsFalse() {
			continue
		}
		anyHit := False
		// same key term as an existing slot: update that slot (it is live afterwards)
		sameSlot := false
		for _, e := range mt.M.entries {
			if sameKeyTerm(e.Key, key) {
				if rv := ex.recycleMap(a.C, g, e, val, fr.idiomNil(m, key)); rv != nil {
					val = rv
				}
				e.Val = MergeV(g, val, e.Val)
				e.Live = Or(e.Live, g)
				sameSlot = true
				break
			}
		}
		if sameSlot {
			continue
		}
		for _, e := range mt.M.entries {
			hit := And(e.Live, keyEq(e.Key, key))
			if hit.IsFalse() {
				continue
			}
			e.Val = MergeV(And(g, hit), val, e.Val)
			anyHit = Or(anyHit, hit)
		}
		live := And(g, Not(anyHit))
		if ex.trace {
			ks := "?"
			if sv, ok := key.(StrV); ok {
				ks = sv.T.Pretty(2)
			}
			fmt.Printf("MAPUPDATE-NEW in %s key=%s entries=%d live=%v\n", fr.fn.Name(), ks, len(mt.M.entries), !live.IsFalse())
		}
		if !live.IsFalse() {
			mt.M.entries = append(mt.M.entries, &MapEntry{Live: live, Key: key, Val: val})
		}
	}
}

// impliesNot: g syntactically implies not t (a conjunct of g is not(t) or not(or(.. t ..))).
func impliesNot(g, t *Term) bool {
	seen := 0
	var walk func(x *Term) bool
	walk = func(x *Term) bool {
		seen++
		if seen > 20000 {
			return false
		}
		switch x.op {
		case "and":
			for _, y := range x.args {
				if walk(y) {
					return true
				}
			}
		case "not":
			y := x.args[0]
			if y == t {
				return true
			}
			if y.op == "or" {
				for _, z := range y.args {
					if z == t {
						return true
					}
				}
			}
		}
		return false
	}
	return walk(g)
}

// recycleMap: the lookup-or-create idiom `if m[k] == nil { m[k] = map[..]..{} }` executed in a
// loop allocates one map per iteration, all but one dead on any given path. When the slot's
// current map M_k is provably unreachable on the storing paths (the store guard contains the
// slot's nil test), the fresh empty map is identified with M_k (whose entries are killed on
// those paths) instead of becoming another alternative.
// idiomNil: the current block was entered through `if m[k] == nil` on this very map and key.
func (fr *Frame) idiomNil(m RefV, key Value) bool {
	nt, ok := fr.nilTested[fr.cur]
	if !ok || !sameKeyTerm(nt.key, key) || len(nt.m.Alts) != len(m.Alts) {
		return false
	}
	for i := range m.Alts {
		if targetKey(nt.m.Alts[i].Tgt) != targetKey(m.Alts[i].Tgt) {
			return false
		}
	}
	return true
}

func (ex *Exec) recycleMap(mapCond, g *Term, e *MapEntry, val Value, idiom bool) Value {
	nv, ok := val.(RefV)
	if !ok || len(nv.Alts) != 1 || !nv.Alts[0].C.IsTrue() {
		return nil
	}
	nm, ok := nv.Alts[0].Tgt.(MapT)
	if !ok || len(nm.M.entries) != 0 || nm.M.fwd != nil {
		return nil
	}
	old, ok := e.Val.(RefV)
	if !ok {
		return nil
	}
	for _, oa := range old.Alts {
		om, ok := oa.Tgt.(MapT)
		if !ok || om.M == nm.M || om.M.typ != nm.M.typ {
			continue
		}
		t := And(And(mapCond, e.Live, True), oa.C) // same construction as mapLookup
		if idiom {
			// structurally the lookup-or-create idiom: the slot is nil on every storing path
		} else if !impliesNot(g, t) {
			if ex.trace {
				fmt.Printf("RECYCLE-NO key=%v t=%s\n   g=%s\n", e.Key, t.Pretty(3), g.Pretty(3))
			}
			continue
		}
		if !idiom && om.M.created != nil && !(om.M.created == oa.C || impliesNot(g, om.M.created)) {
			continue
		}
		ng := Not(g)
		for _, oe := range om.M.entries {
			oe.Live = And(oe.Live, ng)
		}
		nm.M.fwd = om.M
		return Ref1(MapT{M: om.M})
	}
	return nil
}

func sameKeyTerm(a, b Value) bool {
	switch x := a.(type) {
	case StrV:
		y, ok := b.(StrV)
		return ok && x.T == y.T
	case IntV:
		y, ok := b.(IntV)
		return ok && x.T == y.T
	}
	return false
}

func (ex *Exec) mapDelete(fr *Frame, m RefV, key Value) {
	for _, a := range m.Alts {
		mt := a.Tgt.(MapT)
		mt.M = mt.M.resolve()
		g := And(fr.guard, a.C)
		if g.IsFalse() {
			continue
		}
		for _, e := range mt.M.entries {
			hit := And(g, e.Live, keyEq(e.Key, key))
			if hit.IsFalse() {
				continue
			}
			e.Live = And(e.Live, Not(hit))
		}
	}
}

func (ex *Exec) mapLen(m RefV) *Term {
	n := BVC(0, 64)
	for _, a := range m.Alts {
		mt := a.Tgt.(MapT)
		mt.M = mt.M.resolve()
		for _, e := range mt.M.entries {
			n = BVBin("bvadd", n, Ite(And(a.C, e.Live), BVC(1, 64), BVC(0, 64)))
		}
	}
	return n
}

// termUpper: syntactic upper bound of a BV term built from ite/const/+const (memoised).
var upperMemo = map[*Term][2]int{}

func termUpper(t *Term) (int, bool) {
	if r, ok := upperMemo[t]; ok {
		return r[0], r[1] == 1
	}
	v, ok := termUpper1(t)
	b := 0
	if ok {
		b = 1
	}
	upperMemo[t] = [2]int{v, b}
	return v, ok
}

func termUpper1(t *Term) (int, bool) {
	switch t.op {
	case "const":
		return int(t.SVal()), true
	case "ite":
		a, ok1 := termUpper(t.args[1])
		b, ok2 := termUpper(t.args[2])
		if ok1 && ok2 {
			if a > b {
				return a, true
			}
			return b, true
		}
	case "bvadd":
		a, ok1 := termUpper(t.args[0])
		b, ok2 := termUpper(t.args[1])
		if ok1 && ok2 {
			return a + b, true
		}
	}
	return 0, false
}

