// Instruction semantics.
package main

import (
	"fmt"
	"go/token"
	"go/types"

	"golang.org/x/tools/go/ssa"
)

func (ex *Exec) step(fr *Frame, ins ssa.Instruction) {
	switch x := ins.(type) {
	case *ssa.DebugRef:
	case *ssa.Alloc:
		et := x.Type().(*types.Pointer).Elem()
		o := ex.newObject(x.Comment, et, ZeroValue(et))
		o.allocG = fr.guard
		fr.set(x, Ref1(AddrT{Obj: o}))
	case *ssa.UnOp:
		fr.set(x, ex.unop(fr, x))
	case *ssa.BinOp:
		a, b := ex.operand(fr, x.X), ex.operand(fr, x.Y)
		fr.set(x, ex.binop(fr, x.Op, a, b, x.X.Type(), x.Pos()))
	case *ssa.Store:
		ex.store(fr, ex.operand(fr, x.Addr), ex.operand(fr, x.Val), x.Pos())
	case *ssa.FieldAddr:
		r := ex.operand(fr, x.X).(RefV)
		ex.addPanic(fr, r.IsNilTerm(), "nil-deref", x.Pos())
		var alts []Alt
		for _, a := range r.Alts {
			at := a.Tgt.(AddrT)
			alts = addAlt(alts, a.C, AddrT{Obj: at.Obj, P: extendPath(at.P, x.Field)})
		}
		fr.set(x, RefV{Alts: alts})
	case *ssa.Field:
		sv := ex.operand(fr, x.X).(StructV)
		fr.set(x, sv.F[x.Field])
	case *ssa.IndexAddr:
		fr.set(x, ex.indexAddr(fr, x))
	case *ssa.Index:
		fr.set(x, ex.index(fr, x))
	case *ssa.Lookup:
		fr.set(x, ex.lookup(fr, x))
	case *ssa.MapUpdate:
		ex.mapUpdate(fr, ex.operand(fr, x.Map).(RefV), ex.operand(fr, x.Key), ex.operand(fr, x.Value), x.Pos())
	case *ssa.MakeMap:
		m := ex.newMap("makemap", x.Type().Underlying().(*types.Map))
		m.created = fr.guard
		fr.set(x, Ref1(MapT{M: m}))
	case *ssa.MakeSlice:
		fr.set(x, ex.makeSlice(fr, x))
	case *ssa.MakeClosure:
		var bs []Value
		for _, b := range x.Bindings {
			bs = append(bs, ex.operand(fr, b))
		}
		fr.set(x, Ref1(FuncT{Fn: x.Fn.(*ssa.Function), Bindings: bs}))
	case *ssa.MakeInterface:
		fr.set(x, Ref1(IfaceT{Typ: x.X.Type(), V: ex.operand(fr, x.X)}))
	case *ssa.ChangeInterface:
		fr.set(x, ex.operand(fr, x.X))
	case *ssa.ChangeType:
		fr.set(x, ex.operand(fr, x.X))
	case *ssa.Convert:
		fr.set(x, ex.convert(fr, x))
	case *ssa.Slice:
		fr.set(x, ex.sliceOp(fr, x))
	case *ssa.Extract:
		tv := ex.operand(fr, x.Tuple).(TupleV)
		fr.set(x, tv.E[x.Index])
	case *ssa.Range:
		fr.set(x, ex.rangeOp(fr, x))
	case *ssa.Next:
		fr.set(x, ex.next(fr, x))
	case *ssa.TypeAssert:
		fr.set(x, ex.typeAssert(fr, x))
	case *ssa.Call:
		res := ex.call(fr, &x.Call, x.Pos())
		if res != nil {
			fr.set(x, res)
		} else if x.Call.Signature().Results().Len() > 0 {
			fr.set(x, ex.zeroResults(x.Call.Signature()))
		}
	case *ssa.Defer:
		d := deferred{g: fr.guard, call: &x.Call}
		if !x.Call.IsInvoke() {
			if _, isFn := x.Call.Value.(*ssa.Function); !isFn {
				if _, isB := x.Call.Value.(*ssa.Builtin); !isB {
					d.fn = ex.operand(fr, x.Call.Value)
				}
			}
		} else {
			d.fn = ex.operand(fr, x.Call.Value)
		}
		for _, a := range x.Call.Args {
			d.args = append(d.args, ex.operand(fr, a))
		}
		fr.defers = append(fr.defers, d)
	case *ssa.RunDefers:
		saved := fr.guard
		for i := len(fr.defers) - 1; i >= 0; i-- {
			d := fr.defers[i]
			g := And(saved, d.g)
			if g.IsFalse() {
				continue
			}
			fr.guard = g
			ex.callCommon(fr, d.call, d.fn, d.args, d.call.Pos())
		}
		fr.guard = saved
	case *ssa.If:
		c := ex.operand(fr, x.Cond).(BoolV).T
		// remember `if m[k] == nil` so that the create branch can recycle the slot's map
		if bo, ok := x.Cond.(*ssa.BinOp); ok && (bo.Op == token.EQL || bo.Op == token.NEQ) {
			if lk, ok := bo.X.(*ssa.Lookup); ok && !lk.CommaOk {
				if cst, ok := bo.Y.(*ssa.Const); ok && cst.Value == nil {
					if _, isMap := lk.X.Type().Underlying().(*types.Map); isMap {
						if fr.nilTested == nil {
							fr.nilTested = map[*ssa.BasicBlock]nilTest{}
						}
						succ := fr.cur.Succs[0]
						if bo.Op == token.NEQ {
							succ = fr.cur.Succs[1]
						}
						if mv, ok := ex.operand(fr, lk.X).(RefV); ok && len(succ.Preds) == 1 {
							fr.nilTested[succ] = nilTest{m: mv, key: ex.operand(fr, lk.Index)}
						}
					}
				}
			}
		}
		fr.addEdge(fr.cur.Succs[0], And(fr.guard, c), fr.cur)
		fr.addEdge(fr.cur.Succs[1], And(fr.guard, Not(c)), fr.cur)
	case *ssa.Jump:
		fr.addEdge(fr.cur.Succs[0], fr.guard, fr.cur)
	case *ssa.Return:
		var vals []Value
		for _, r := range x.Results {
			vals = append(vals, ex.operand(fr, r))
		}
		fr.rets = append(fr.rets, RetEdge{g: fr.guard, vals: vals})
	case *ssa.Panic:
		ex.addPanic(fr, True, "explicit-panic", x.Pos())
	default:
		panic(unsupported("instruction %T (%s) in %s", ins, ins, fr.fn))
	}
}

func (ex *Exec) unop(fr *Frame, x *ssa.UnOp) Value {
	v := ex.operand(fr, x.X)
	switch x.Op {
	case token.MUL:
		return ex.load(fr, v, x.Type(), x.Pos())
	case token.NOT:
		return BoolV{Not(v.(BoolV).T)}
	case token.SUB:
		iv := v.(IntV)
		return IntV{BVNeg(iv.T), iv.Signed}
	case token.XOR:
		iv := v.(IntV)
		return IntV{BVNot(iv.T), iv.Signed}
	}
	panic(unsupported("unop %s", x.Op))
}

func (ex *Exec) binop(fr *Frame, op token.Token, a, b Value, t types.Type, pos token.Pos) Value {
	switch x := a.(type) {
	case IntV:
		y := b.(IntV)
		if op == token.SHL || op == token.SHR {
			yt := BVResize(y.T, x.T.sort.W, false)
			if op == token.SHL {
				return IntV{BVBin("bvshl", x.T, yt), x.Signed}
			}
			if x.Signed {
				return IntV{BVBin("bvashr", x.T, yt), x.Signed}
			}
			return IntV{BVBin("bvlshr", x.T, yt), x.Signed}
		}
		switch op {
		case token.ADD:
			return IntV{BVBin("bvadd", x.T, y.T), x.Signed}
		case token.SUB:
			return IntV{BVBin("bvsub", x.T, y.T), x.Signed}
		case token.MUL:
			return IntV{BVBin("bvmul", x.T, y.T), x.Signed}
		case token.QUO, token.REM:
			ex.addPanic(fr, Eq(y.T, BVC(0, y.T.sort.W)), "div-by-zero", pos)
			o := map[bool]map[token.Token]string{true: {token.QUO: "bvsdiv", token.REM: "bvsrem"}, false: {token.QUO: "bvudiv", token.REM: "bvurem"}}[x.Signed][op]
			return IntV{BVBin(o, x.T, y.T), x.Signed}
		case token.AND:
			return IntV{BVBin("bvand", x.T, y.T), x.Signed}
		case token.OR:
			return IntV{BVBin("bvor", x.T, y.T), x.Signed}
		case token.XOR:
			return IntV{BVBin("bvxor", x.T, y.T), x.Signed}
		case token.AND_NOT:
			return IntV{BVBin("bvand", x.T, BVNot(y.T)), x.Signed}
		case token.EQL:
			return BoolV{Eq(x.T, y.T)}
		case token.NEQ:
			return BoolV{Neq(x.T, y.T)}
		}
		lt, le := "bvult", "bvule"
		if x.Signed {
			lt, le = "bvslt", "bvsle"
		}
		switch op {
		case token.LSS:
			return BoolV{BVCmp(lt, x.T, y.T)}
		case token.LEQ:
			return BoolV{BVCmp(le, x.T, y.T)}
		case token.GTR:
			return BoolV{BVCmp(lt, y.T, x.T)}
		case token.GEQ:
			return BoolV{BVCmp(le, y.T, x.T)}
		}
	case BoolV:
		y := b.(BoolV)
		switch op {
		case token.EQL:
			return BoolV{Eq(x.T, y.T)}
		case token.NEQ:
			return BoolV{Neq(x.T, y.T)}
		case token.AND:
			return BoolV{And(x.T, y.T)}
		case token.OR:
			return BoolV{Or(x.T, y.T)}
		}
	case StrV, BStrV:
		return ex.strBinop(op, a, b)
	case RefV, StructV, TimeV, ArrayV:
		switch op {
		case token.EQL:
			return BoolV{EqV(a, b)}
		case token.NEQ:
			return BoolV{Not(EqV(a, b))}
		}
	}
	panic(unsupported("binop %s on %T,%T", op, a, b))
}

func (ex *Exec) indexAddr(fr *Frame, x *ssa.IndexAddr) Value {
	base := ex.operand(fr, x.X).(RefV)
	idx := ex.operand(fr, x.Index).(IntV)
	it := BVResize(idx.T, 64, idx.Signed)
	var alts []Alt
	switch x.X.Type().Underlying().(type) {
	case *types.Pointer: // pointer to array
		ex.addPanic(fr, base.IsNilTerm(), "nil-deref", x.Pos())
		for _, a := range base.Alts {
			at := a.Tgt.(AddrT)
			n := len(getPath(at.Obj.val, at.P).(ArrayV).E)
			ex.addPanic(fr, And(a.C, Not(BVCmp("bvult", it, BVC(int64(n), 64)))), "index-out-of-range", x.Pos())
			for j := 0; j < n; j++ {
				c := And(a.C, Eq(it, BVC(int64(j), 64)))
				alts = addAlt(alts, c, AddrT{Obj: at.Obj, P: extendPath(at.P, j)})
			}
		}
	case *types.Slice:
		inSort := len(base.Alts) > 0
		for _, a := range base.Alts {
			if st, ok := a.Tgt.(SliceT); !ok || !ex.physIndex[st.Arr] {
				inSort = false
			}
		}
		if _, ok := fr.sparseIdx[x.Index]; !ok && !inSort {
			ex.addPanic(fr, Not(BVCmp("bvult", it, ex.sliceLen(base))), "index-out-of-range", x.Pos())
		} // else: range driver (the cell is present by construction) or the comparator of a sort in
		// progress, which the sort model calls with physical cell numbers of present cells
		if k, ok := fr.sparseIdx[x.Index]; ok {
			// range driver over a sparse slice: this iteration is physical cell k
			for _, a := range base.Alts {
				st := a.Tgt.(SliceT)
				if k < st.phys() {
					alts = addAlt(alts, a.C, AddrT{Obj: st.Arr, P: []int{st.Off + k}})
				}
			}
			break
		}
		for _, a := range base.Alts {
			st, ok := a.Tgt.(SliceT)
			if !ok {
				panic(unsupported("indexaddr on %T", a.Tgt))
			}
			ex.cellsOf(st, it, func(c *Term, cell int) {
				alts = addAlt(alts, And(a.C, c), AddrT{Obj: st.Arr, P: []int{cell}})
			})
		}
	default:
		panic(unsupported("indexaddr on %s", x.X.Type()))
	}
	return RefV{Alts: alts}
}

func (ex *Exec) index(fr *Frame, x *ssa.Index) Value {
	base := ex.operand(fr, x.X)
	idx := ex.operand(fr, x.Index).(IntV)
	it := BVResize(idx.T, 64, idx.Signed)
	switch b := base.(type) {
	case ArrayV:
		ex.addPanic(fr, Not(BVCmp("bvult", it, BVC(int64(len(b.E)), 64))), "index-out-of-range", x.Pos())
		var acc Value = b.E[0]
		for j := 1; j < len(b.E); j++ {
			acc = MergeV(Eq(it, BVC(int64(j), 64)), b.E[j], acc)
		}
		return acc
	case StrV, BStrV:
		bs := toBStr(base)
		ex.addPanic(fr, Not(BVCmp("bvult", it, bs.Len)), "index-out-of-range", x.Pos())
		return IntV{bstrAt(bs, it), false}
	}
	panic(unsupported("index on %T", base))
}

func (ex *Exec) lookup(fr *Frame, x *ssa.Lookup) Value {
	base := ex.operand(fr, x.X)
	key := ex.operand(fr, x.Index)
	if mt, ok := x.X.Type().Underlying().(*types.Map); ok {
		v, found := ex.mapLookup(base.(RefV), key, mt.Elem())
		if x.CommaOk {
			return TupleV{E: []Value{v, BoolV{found}}}
		}
		return v
	}
	// string index
	idx := key.(IntV)
	it := BVResize(idx.T, 64, idx.Signed)
	bs := toBStr(base)
	ex.addPanic(fr, Not(BVCmp("bvult", it, bs.Len)), "index-out-of-range", x.Pos())
	return IntV{bstrAt(bs, it), false}
}

func (ex *Exec) makeSlice(fr *Frame, x *ssa.MakeSlice) Value {
	et := x.Type().Underlying().(*types.Slice).Elem()
	ln := ex.operand(fr, x.Len).(IntV)
	cp := ex.operand(fr, x.Cap).(IntV)
	lt := BVResize(ln.T, 64, ln.Signed)
	n := ex.cfg.SliceCap
	if cp.T.IsConst() {
		n = int(cp.T.SVal())
	} else if ub, ok := termUpper(cp.T); ok {
		n = ub
	}
	if n > 4096 {
		// large concrete buffers (scanner buffers etc.) are never element-wise modelled
		n = 0
	}
	arr := ex.newArray("makeslice", et, n)
	return Ref1(SliceT{Arr: arr, Off: 0, Len: lt, Cap: n})
}

func (ex *Exec) sliceOp(fr *Frame, x *ssa.Slice) Value {
	base := ex.operand(fr, x.X)
	var lo, hi *Term
	if x.Low != nil {
		v := ex.operand(fr, x.Low).(IntV)
		lo = BVResize(v.T, 64, v.Signed)
	}
	if x.High != nil {
		v := ex.operand(fr, x.High).(IntV)
		hi = BVResize(v.T, 64, v.Signed)
	}
	switch x.X.Type().Underlying().(type) {
	case *types.Basic: // string
		return bstrSlice(ex, fr, toBStr(base), lo, hi, x.Pos())
	case *types.Pointer: // *array
		r := base.(RefV)
		var alts []Alt
		for _, a := range r.Alts {
			at := a.Tgt.(AddrT)
			n := len(getPath(at.Obj.val, at.P).(ArrayV).E)
			if len(at.P) != 0 {
				panic(unsupported("slice of nested array"))
			}
			l, h := 0, n
			if lo != nil {
				if !lo.IsConst() {
					panic(unsupported("symbolic low bound slicing array"))
				}
				l = int(lo.SVal())
			}
			var ln *Term
			if hi != nil {
				ln = BVBin("bvsub", hi, BVC(int64(l), 64))
			} else {
				ln = BVC(int64(h-l), 64)
			}
			alts = addAlt(alts, a.C, SliceT{Arr: at.Obj, Off: l, Len: ln, Cap: n - l})
		}
		return RefV{Alts: alts}
	case *types.Slice:
		if bs, ok := base.(BStrV); ok {
			return bstrSlice(ex, fr, bs, lo, hi, x.Pos())
		}
		r := base.(RefV)
		var alts []Alt
		// buf[:0] of a buffer of marshalled lines: the empty buffer
		if hi != nil && hi.IsConst() && hi.SVal() == 0 && (lo == nil || (lo.IsConst() && lo.SVal() == 0)) {
			boxy := false
			for _, a := range r.Alts {
				switch a.Tgt.(type) {
				case BoxT, BoxSeqT:
					boxy = true
				}
			}
			if boxy {
				arr := ex.newArray("bytes", types.Typ[types.Uint8], 0)
				return Ref1(SliceT{Arr: arr, Off: 0, Len: BVC(0, 64), Cap: 0})
			}
		}
		if isSparse(r) {
			if hi != nil && hi.IsConst() && hi.SVal() == 0 && (lo == nil || (lo.IsConst() && lo.SVal() == 0)) {
				for _, a := range r.Alts {
					st := a.Tgt.(SliceT)
					alts = addAlt(alts, a.C, SliceT{Arr: st.Arr, Off: st.Off, Len: BVC(0, 64), Cap: st.Cap})
				}
				return RefV{Alts: alts}
			}
			r = ex.densify(r, x.X.Type().Underlying().(*types.Slice).Elem())
		}
		for _, a := range r.Alts {
			st, ok := a.Tgt.(SliceT)
			if !ok {
				panic(unsupported("slice op on %T", a.Tgt))
			}
			h := st.Len
			if hi != nil {
				h = hi
			}
			if lo == nil || lo.IsConst() {
				l := 0
				if lo != nil {
					l = int(lo.SVal())
				}
				if l > st.Cap {
					ex.addPanic(fr, a.C, "slice-bounds", x.Pos())
					continue
				}
				ex.addPanic(fr, And(a.C, Not(BVCmp("bvsle", BVC(int64(l), 64), h))), "slice-bounds", x.Pos())
				alts = addAlt(alts, a.C, SliceT{Arr: st.Arr, Off: st.Off + l, Len: BVBin("bvsub", h, BVC(int64(l), 64)), Cap: st.Cap - l})
			} else {
				ex.addPanic(fr, And(a.C, Not(BVCmp("bvsle", lo, h))), "slice-bounds", x.Pos())
				for l := 0; l <= st.Cap; l++ {
					c := And(a.C, Eq(lo, BVC(int64(l), 64)))
					alts = addAlt(alts, c, SliceT{Arr: st.Arr, Off: st.Off + l, Len: BVBin("bvsub", h, BVC(int64(l), 64)), Cap: st.Cap - l})
				}
			}
		}
		return RefV{Alts: alts}
	}
	panic(unsupported("slice of %s", x.X.Type()))
}

func (ex *Exec) convert(fr *Frame, x *ssa.Convert) Value {
	v := ex.operand(fr, x.X)
	from, to := x.X.Type().Underlying(), x.Type().Underlying()
	if w, s, ok := intInfo(to); ok {
		if iv, ok := v.(IntV); ok {
			return IntV{BVResize(iv.T, w, iv.Signed), s}
		}
	}
	fb, fIsB := from.(*types.Basic)
	tb, tIsB := to.(*types.Basic)
	if tIsB && tb.Info()&types.IsString != 0 {
		if fIsB && fb.Info()&types.IsString != 0 {
			return v
		}
		if fIsB && fb.Info()&types.IsInteger != 0 {
			// string(rune)
			iv := v.(IntV)
			return runeToStr(ex, iv)
		}
		if _, ok := from.(*types.Slice); ok {
			return bytesToString(ex, v)
		}
	}
	if ts, ok := to.(*types.Slice); ok && fIsB && fb.Info()&types.IsString != 0 {
		if eb, ok := ts.Elem().Underlying().(*types.Basic); ok && eb.Kind() == types.Uint8 {
			return stringToBytes(ex, v)
		}
	}
	panic(unsupported("convert %s -> %s", x.X.Type(), x.Type()))
}

func (ex *Exec) rangeOp(fr *Frame, x *ssa.Range) Value {
	v := ex.operand(fr, x.X)
	if _, ok := x.X.Type().Underlying().(*types.Map); ok {
		r := v.(RefV)
		it := &RangeIterV{Map: &r}
		for _, a := range r.Alts {
			it.N = append(it.N, len(a.Tgt.(MapT).M.resolve().entries))
		}
		return it
	}
	bs := toBStr(v)
	return &RangeIterV{IsStr: true, Str: &bs}
}

func (ex *Exec) next(fr *Frame, x *ssa.Next) Value {
	it := ex.operand(fr, x.Iter).(*RangeIterV)
	tt := x.Type().(*types.Tuple)
	if x.IsString {
		return ex.nextString(fr, x, it)
	}
	// flatten position into (alt, entry)
	pos := it.Pos
	it.Pos++
	if ex.trace {
		fmt.Printf("NEXT %p pos=%d N=%v alts=%d blk=%d\n", it, pos, it.N, len(it.Map.Alts), fr.cur.Index)
	}
	for ai, a := range it.Map.Alts {
		if pos >= it.N[ai] {
			pos -= it.N[ai]
			continue
		}
		e := a.Tgt.(MapT).M.resolve().entries[pos]
		live := And(a.C, e.Live)
		// dead entries skip to the next iteration
		fr.addEdge(fr.cur, And(fr.guard, Not(live)), nil)
		fr.guard = And(fr.guard, live)
		var k, v Value
		if tt.At(1).Type() != types.Typ[types.Invalid] {
			k = e.Key
		}
		if tt.At(2).Type() != types.Typ[types.Invalid] {
			v = e.Val
		}
		return TupleV{E: []Value{BoolV{True}, k, v}}
	}
	var k, v Value
	if tt.At(1).Type() != types.Typ[types.Invalid] {
		k = ZeroValue(tt.At(1).Type())
	}
	if tt.At(2).Type() != types.Typ[types.Invalid] {
		v = ZeroValue(tt.At(2).Type())
	}
	return TupleV{E: []Value{BoolV{False}, k, v}}
}

func (ex *Exec) typeAssert(fr *Frame, x *ssa.TypeAssert) Value {
	r := ex.operand(fr, x.X).(RefV)
	_, toIface := x.AssertedType.Underlying().(*types.Interface)
	var val Value
	if toIface {
		val = NilRef()
	} else {
		val = ZeroValue(x.AssertedType)
	}
	ok := False
	for _, a := range r.Alts {
		it := a.Tgt.(IfaceT)
		var match bool
		if toIface {
			match = types.Implements(it.Typ, x.AssertedType.Underlying().(*types.Interface))
		} else {
			match = types.Identical(it.Typ, x.AssertedType)
		}
		if !match {
			continue
		}
		if toIface {
			val = MergeV(a.C, Ref1(it), val)
		} else {
			val = MergeV(a.C, it.V, val)
		}
		ok = Or(ok, a.C)
	}
	if x.CommaOk {
		return TupleV{E: []Value{val, BoolV{ok}}}
	}
	ex.addPanic(fr, Not(ok), "type-assert", x.Pos())
	return val
}

// ---- calls ----

func (ex *Exec) call(fr *Frame, c *ssa.CallCommon, pos token.Pos) Value {
	var args []Value
	for _, a := range c.Args {
		args = append(args, ex.operand(fr, a))
	}
	var fv Value
	if c.IsInvoke() {
		fv = ex.operand(fr, c.Value)
	} else {
		switch c.Value.(type) {
		case *ssa.Function, *ssa.Builtin:
		default:
			fv = ex.operand(fr, c.Value)
		}
	}
	return ex.callCommon(fr, c, fv, args, pos)
}

func (ex *Exec) callCommon(fr *Frame, c *ssa.CallCommon, fv Value, args []Value, pos token.Pos) Value {
	if c.IsInvoke() {
		return ex.invoke(fr, c, fv.(RefV), args, pos)
	}
	switch f := c.Value.(type) {
	case *ssa.Builtin:
		return ex.builtin(fr, f.Name(), c, args, pos)
	case *ssa.Function:
		if m := ex.lookupModel(f); m != nil {
			ex.modelsHit[f.String()]++
			return m(ex, &callCtx{fr: fr, guard: fr.guard, pos: pos, fn: f, args: args, call: c})
		}
		saved := fr.guard
		res := ex.callFunction(f, args, nil, fr.guard, pos)
		fr.guard = saved
		return res
	}
	ex.addPanic(fr, fv.(RefV).IsNilTerm(), "nil-func-call", pos)
	return ex.callValue(fv, args, fr.guard, pos, c.Signature())
}

func (ex *Exec) invoke(fr *Frame, c *ssa.CallCommon, recv RefV, args []Value, pos token.Pos) Value {
	ex.addPanic(fr, recv.IsNilTerm(), "nil-iface-call", pos)
	var acc Value
	first := true
	for _, a := range recv.Alts {
		it, ok := a.Tgt.(IfaceT)
		if !ok {
			panic(unsupported("invoke on %T", a.Tgt))
		}
		g := And(fr.guard, a.C)
		if g.IsFalse() {
			continue
		}
		var res Value
		if m := ex.lookupInvokeModel(it.Typ, c.Method.Name()); m != nil {
			res = m(ex, &callCtx{fr: fr, guard: g, pos: pos, args: append([]Value{it.V}, args...), call: c})
		} else {
			fn := ex.prog.LookupMethod(it.Typ, c.Method.Pkg(), c.Method.Name())
			if fn == nil {
				panic(unsupported("no method %s on %s", c.Method.Name(), it.Typ))
			}
			full := append([]Value{it.V}, args...)
			if m := ex.lookupModel(fn); m != nil {
				ex.modelsHit[fn.String()]++
				res = m(ex, &callCtx{fr: fr, guard: g, pos: pos, fn: fn, args: full, call: c})
			} else {
				res = ex.callFunction(fn, full, nil, g, pos)
			}
		}
		if first {
			acc = res
			first = false
		} else if res != nil {
			acc = MergeV(a.C, res, acc)
		}
	}
	if first {
		return ex.zeroResults(c.Signature())
	}
	return acc
}

func (ex *Exec) builtin(fr *Frame, name string, c *ssa.CallCommon, args []Value, pos token.Pos) Value {
	switch name {
	case "len":
		switch v := args[0].(type) {
		case StrV, BStrV:
			return IntV{ex.strLen(v), true}
		case RefV:
			switch c.Args[0].Type().Underlying().(type) {
			case *types.Map:
				return IntV{ex.mapLen(v), true}
			case *types.Slice:
				return IntV{ex.sliceLen(v), true}
			}
		case ArrayV:
			return IntV{BVC(int64(len(v.E)), 64), true}
		}
	case "cap":
		if r, ok := args[0].(RefV); ok {
			n := BVC(0, 64)
			for _, a := range r.Alts {
				n = Ite(a.C, BVC(int64(a.Tgt.(SliceT).Cap), 64), n)
			}
			return IntV{n, true}
		}
	case "append":
		st := c.Args[0].Type().Underlying().(*types.Slice)
		if isByteSlice(st) {
			return ex.appendBytes(fr, args[0], args[1])
		}
		return ex.appendSlice(fr, args[0].(RefV), args[1].(RefV), st.Elem())
	case "delete":
		ex.mapDelete(fr, args[0].(RefV), args[1])
		return nil
	case "copy":
		return ex.copyBuiltin(fr, c, args)
	case "print", "println":
		return nil
	case "min", "max":
		a, b := args[0].(IntV), args[1].(IntV)
		op := "bvult"
		if a.Signed {
			op = "bvslt"
		}
		lt := BVCmp(op, a.T, b.T)
		if name == "min" {
			return IntV{Ite(lt, a.T, b.T), a.Signed}
		}
		return IntV{Ite(lt, b.T, a.T), a.Signed}
	}
	panic(unsupported("builtin %s on %T", name, args[0]))
}

func isByteSlice(st *types.Slice) bool {
	b, ok := st.Elem().Underlying().(*types.Basic)
	return ok && b.Kind() == types.Uint8
}

func (ex *Exec) copyBuiltin(fr *Frame, c *ssa.CallCommon, args []Value) Value {
	dst := args[0].(RefV)
	// source as (length, byte/elem at i)
	var srcLen *Term
	var srcAt func(i int) Value
	srcMax := 0
	switch sv := args[1].(type) {
	case StrV, BStrV:
		bs := toBStr(sv)
		srcLen, srcMax = bs.Len, len(bs.B)
		srcAt = func(i int) Value { return IntV{bs.B[i], false} }
	case RefV:
		if isSparse(sv) {
			panic(unsupported("copy from a sparse slice"))
		}
		srcLen = ex.sliceLen(sv)
		for _, a := range sv.Alts {
			if st := a.Tgt.(SliceT); st.phys() > srcMax {
				srcMax = st.phys()
			}
		}
		et := c.Args[1].Type().Underlying().(*types.Slice).Elem()
		srcAt = func(i int) Value {
			var acc Value = ZeroValue(et)
			for _, a := range sv.Alts {
				st := a.Tgt.(SliceT)
				if i < st.phys() {
					acc = MergeV(a.C, st.Arr.val.(ArrayV).E[st.Off+i], acc)
				}
			}
			return acc
		}
	default:
		panic(unsupported("copy from %T", args[1]))
	}
	dstLen := ex.sliceLen(dst)
	n := Ite(BVCmp("bvslt", srcLen, dstLen), srcLen, dstLen)
	for _, a := range dst.Alts {
		st := a.Tgt.(SliceT)
		if st.Pres != nil {
			panic(unsupported("copy into a sparse slice"))
		}
		arr := st.Arr.val.(ArrayV)
		ne := make([]Value, len(arr.E))
		copy(ne, arr.E)
		for i := 0; i < srcMax && i < st.Cap; i++ {
			g := And(fr.guard, a.C, BVCmp("bvslt", BVC(int64(i), 64), n))
			if g.IsFalse() {
				continue
			}
			ne[st.Off+i] = MergeV(g, srcAt(i), ne[st.Off+i])
			st.Arr.markDirty(st.Off + i)
		}
		st.Arr.val = ArrayV{E: ne}
	}
	return IntV{n, true}
}

var _ = fmt.Sprintf
