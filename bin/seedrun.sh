#!/bin/bash
# usage: seedrun.sh <worktree> <PROP> <seed-name> [check ids...]
# Confirms the agent's demo both ways inside its scratch worktree (no git stash), stores patch / demo /
# agent meta under /verif/seeded/<seed-name>, and runs the named checks against that worktree
# (ERGO_REPO=<worktree>: /repo HEAD + the patch) so /repo itself is never touched.
WT=$1; PROP=$2; NAME=$3; shift 3
export GOFLAGS=-mod=mod GOPROXY=off
cd $WT || exit 2
CHANGED=$(git diff --name-only | tr '\n' ' ')
DEMO=$(git status --short | grep '^??' | awk '{print $2}' | grep -E 'zz_seed_demo' | head -1)
echo "changed: $CHANGED   demo: $DEMO"
D=/verif/seeded/$NAME; mkdir -p $D
git diff > $D/patch.diff
cp $DEMO $D/ 2>/dev/null; cp meta.json $D/meta.agent.json 2>/dev/null
rundemo() {
  case "$DEMO" in
    *.sh) sh $DEMO >/dev/null 2>&1 && echo ok || echo FAIL ;;
    *) PKG=./$(dirname $DEMO); RUNPAT=$(grep -ohE 'func (Test[A-Za-z0-9_]+)' $DEMO | awk '{print $2}' | paste -sd'|'); go test -vet=off -count=1 -run "^($RUNPAT)\$" $PKG 2>&1 | tail -1 | cut -c1-80 ;;
  esac
}
echo "WITH change (expect FAIL): $(rundemo)"
git apply -R $D/patch.diff
echo "WITHOUT change (expect ok): $(rundemo)"
git apply $D/patch.diff
echo "other failing tests with change: [$(go test -vet=off -count=1 ./... 2>&1 | grep -E '^--- FAIL' | grep -v FailureLeavesOriginalFile | grep -v -i seeddemo | head -3 | tr '\n' ' ')]"
cd /verif
for c in "$@"; do
  out=$(ERGO_REPO=$WT timeout 1500 ./check $c quick 2>&1); rc=$?
  echo "CHECK $c exit=$rc"; echo "$out" | grep -E "VIOLATION|assertion:|INCONCLUSIVE" | cut -c1-230 | head -6
  echo "$out" | tail -1
done
