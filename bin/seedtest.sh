#!/bin/bash
# usage: seedtest.sh <worktree-dir> <PROP> <seed-name> [check ids...]
# 1) confirms the demo fails with the change and passes without it (in the worktree)
# 2) copies patch/demo/meta to /verif/seeded/<seed-name>/
# 3) applies the patch to /repo, runs the checks, undoes it
WT=$1; PROP=$2; NAME=$3; shift 3; CHECKS="$@"
export GOFLAGS=-mod=mod GOPROXY=off
cd $WT || exit 2
DEMO=$(git status --short | grep '^??' | awk '{print $2}' | grep -E '_test.go$|\.sh$' | head -1)
echo "demo file: $DEMO"
PKG=./$(dirname $DEMO)
RUNPAT=$(grep -ohE 'func (Test[A-Za-z0-9_]+)' $DEMO | awk '{print $2}' | paste -sd'|')
with=$(go test -vet=off -count=1 -run "^($RUNPAT)\$" $PKG 2>&1 | tail -3)
CHANGED=$(git diff --name-only)
git diff -- $CHANGED > /tmp/wt/.seedpatch.$$ 2>/dev/null || { mkdir -p /tmp/wt; git diff -- $CHANGED > /tmp/wt/.seedpatch.$$; }
git checkout -- $CHANGED
without=$(go test -vet=off -count=1 -run "^($RUNPAT)\$" $PKG 2>&1 | tail -3)
base=$(go test -vet=off -count=1 ./... 2>&1 | grep -E '^--- FAIL' | grep -v FailureLeavesOriginalFile | grep -v -E "$RUNPAT" | head -3)
git apply /tmp/wt/.seedpatch.$$ && rm -f /tmp/wt/.seedpatch.$$
full=$(go test -vet=off -count=1 ./... 2>&1 | grep -E '^--- FAIL' | grep -v FailureLeavesOriginalFile | grep -v -E "$RUNPAT" | head -3)
echo "WITH change (expect FAIL): $(echo "$with" | tail -1)"
echo "WITHOUT change (expect ok): $(echo "$without" | tail -1)"
echo "other failing tests with change: [$full]  without: [$base]"
D=/verif/seeded/$NAME; mkdir -p $D
git diff -- $(git diff --name-only) > $D/patch.diff
cp $DEMO $D/; cp meta.json $D/meta.agent.json 2>/dev/null
cd /verif
git -C /repo apply $D/patch.diff || { echo "patch does not apply to /repo"; exit 3; }
for c in $CHECKS; do
  out=$(timeout 1000 ./check $c quick 2>&1); rc=$?
  echo "CHECK $c exit=$rc"; echo "$out" | grep -E "VIOLATION|assertion:|INCONCLUSIVE" | cut -c1-220 | head -6
  echo "$out" | tail -1
done
git -C /repo checkout -- . ; git -C /repo status --short | head -2
