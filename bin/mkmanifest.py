#!/usr/bin/env python3
"""Regenerates MANIFEST.json from the registry (vlib/props.py) and the notes below."""
import json, os, sys
sys.path.insert(0, os.path.dirname(os.path.dirname(os.path.abspath(__file__))))
from vlib import props

V = os.path.dirname(os.path.dirname(os.path.abspath(__file__)))
ids = [json.loads(l)["id"] for l in open(os.path.join(V, "properties.jsonl"))]
NA = json.load(open(os.path.join(V, "vlib", "not_applicable.json")))
NOTES = json.load(open(os.path.join(V, "vlib", "level_notes.json")))
checks = []
for pid in ids:
    if pid not in props.PROPS:
        continue
    n = NOTES.get(pid, {})
    checks.append({
        "property_id": pid,
        "quick_cmd": "./check %s quick" % pid,
        "thorough_cmd": "./check %s thorough" % pid,
        "evidence_file": "evidence/%s.json" % pid,
        "replay_cmd_template": "./check %s --replay {path}" % pid,
        "engine": "gosmt",
        "level_claimed": {"category": "model_checking", "text": n.get("text", props.PROPS[pid]["level_text"]), "design_ref": n.get("design_ref", "DESIGN.md section 5, " + pid)},
        "level_note": n.get("note", "; ".join(props.PROPS[pid]["assumptions"])),
        "technique": n.get("technique", "solver-based checking of the real code: go/ssa -> SMT-LIB2 symbolic execution (gosmt), z3 decides each obligation within stated bounds; sat models replayed natively"),
    })
m = {
    "version": 1,
    "setup_cmd": "./bin/build.sh",
    "hooks": {"guard": "verif", "enable": "none - harnesses are injected as go/packages overlay files (engine) and go test -overlay files (native replay) generated from the working tree; no hook is committed to /repo",
              "baseline_off_cmd": "cd /repo && GOFLAGS=-mod=mod GOPROXY=off go test -vet=off -count=1 ./...", "source_commits": [], "add_only": True},
    "engines": [{"name": "gosmt", "path": "engine/", "serves_properties": [c["property_id"] for c in checks],
                 "kind_free_text": "symbolic executor for go/ssa (guarded, merged, unrolled; CBMC-style) emitting SMT-LIB2 for z3; models of std/OS in engine/models.go and engine/world.go"}],
    "checks": checks,
    "notes": "Every check regenerates its encoding from /repo's working tree. Exit 0 = all obligations unsat within the registered bounds (or only KNOWN-FINDING matches); exit 1 = a solver counterexample that reproduced natively; exit 3 = inconclusive (never a VIOLATION line).",
    "not_applicable": [{"property_id": p, "reason": NA.get(p, "check not built yet (work in progress)")} for p in ids if p not in props.PROPS],
}
json.dump(m, open(os.path.join(V, "MANIFEST.json"), "w"), indent=1)
print("checks:", [c["property_id"] for c in checks])
