import json,sys
r=json.load(open(sys.argv[1]))
print(r['status'], r.get('err','')[:3000])
for o in r['obligations']:
    if len(sys.argv)>2 and o['status']=='unsat': continue
    print(o['label'],o['kind'],o['status'],o['reach'],round(o['time_s'],2),o['smt_bytes'],o.get('err',''))
print('reach',r['reach_witnesses'], 'terms',r['terms'], 'calls',r['inlined_calls'], 'enc',round(r['encode_time_s'],2), 'solver',round(r['solver_time_s'],2),'max',round(r['solver_max_s'],2), 'n',len(r['obligations']))
