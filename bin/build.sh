#!/bin/sh
# builds the engine offline with the newer toolchain
set -e
cd /verif/engine
PATH=/opt/veriftools/go1.26.8/bin:$PATH GOTOOLCHAIN=local GOFLAGS=-mod=mod GOPROXY=off go build -o /verif/bin/gosmt .
