#!/bin/bash
# Regression of the checks themselves: every stored seeded change whose patch still applies to
# /repo HEAD is applied in a scratch worktree and the check(s) named in its meta.json are run
# against that worktree (ERGO_REPO); the expected outcome is the recorded one (exit 1 = detected;
# exit 3 / 0 for the seeds recorded as not caught). /repo itself is never touched.
# usage: seedregress.sh [name-prefix]
cd /verif
mkdir -p /tmp/wtr
pass=0; fail=0; skip=0
for d in seeded/${1:-C}*/; do
  n=$(basename $d)
  [ -f $d/meta.json ] || continue
  wt=/tmp/wtr/$n
  git -C /repo worktree add --detach $wt HEAD >/dev/null 2>&1
  if ! (cd $wt && git apply /verif/$d/patch.diff 2>/dev/null); then
    echo "SKIP  $n (patch no longer applies to HEAD)"; skip=$((skip+1))
    git -C /repo worktree remove --force $wt >/dev/null 2>&1; continue
  fi
  read -r checks want <<<"$(python3 - "$d" <<'PY'
import json,re,sys
m=json.load(open(sys.argv[1]+'/meta.json'))
det=m.get('detected_by',{})
ids=re.findall(r'C\d\d', str(det.get('check','')))
prop=m.get('property')
ids=ids or [prop]
print(','.join(dict.fromkeys(ids[:1])), det.get('exit',1))
PY
)"
  c=${checks%%,*}
  ERGO_REPO=$wt timeout 1500 ./check $c quick >/tmp/wtr/$n.log 2>&1; rc=$?
  if [ "$rc" = "$want" ]; then echo "OK    $n  $c exit=$rc"; pass=$((pass+1)); else echo "DIFF  $n  $c exit=$rc (recorded $want)"; fail=$((fail+1)); fi
  git -C /repo worktree remove --force $wt >/dev/null 2>&1
done
git -C /repo worktree prune
echo "seed regression: $pass as recorded, $fail different, $skip skipped"
rm -rf /tmp/wtr
