#!/bin/bash
# usage: seedtest2.sh <pending-dir> <PROP> <seed-name> [checks...]: rebuilds a scratch worktree from the stored patch+demo, then runs seedtest.sh
P=$1; PROP=$2; NAME=$3; shift 3
WT=/tmp/wt/re-$NAME; mkdir -p /tmp/wt
git -C /repo worktree add --detach $WT HEAD >/dev/null 2>&1
(cd $WT && git apply $P/patch.diff) || { echo "patch does not apply"; exit 3; }
for f in $P/*_test.go; do
  pkg=internal/ergo; grep -q '^package main' $f && pkg=cmd/ergo
  cp $f $WT/$pkg/
done
cp $P/*.sh $WT/ 2>/dev/null
cp $P/meta.agent.json $WT/meta.json 2>/dev/null
/verif/bin/seedtest.sh $WT $PROP $NAME "$@"
git -C /repo worktree remove --force $WT; git -C /repo worktree prune
