package ergo

import "time"

// C05: compact changes nothing a reader can see.

func zzMaxT(a, b time.Time) time.Time {
	if b.After(a) {
		return b
	}
	return a
}

func zzZeroOrAtLeast(t, lo time.Time) bool { return t.IsZero() || !t.Before(lo) }

// zzAssumeI6I7: what replay guarantees about Meta and timestamps for logs written by the CLI
// (monotonic clock): creation values recorded, Last*At zero or >= CreatedAt, UpdatedAt the
// maximum of the contributing instants, a claimant implies a recorded claim time, results
// newest first.
func zzAssumeI6I7(g *Graph) {
	for k, t := range g.Tasks {
		m := g.Meta[k]
		zzAssume(m != nil)
		if m == nil {
			continue
		}
		zzAssume(!t.CreatedAt.IsZero())
		zzAssume(m.CreatedAt.Equal(t.CreatedAt))
		zzAssume(m.CreatedEpicIDSet)
		zzAssume(zzZeroOrAtLeast(m.LastStateAt, t.CreatedAt) && zzZeroOrAtLeast(m.LastTitleAt, t.CreatedAt) &&
			zzZeroOrAtLeast(m.LastBodyAt, t.CreatedAt) && zzZeroOrAtLeast(m.LastEpicAt, t.CreatedAt) && zzZeroOrAtLeast(m.LastClaimAt, t.CreatedAt))
		up := t.CreatedAt
		up = zzMaxT(up, m.LastStateAt)
		up = zzMaxT(up, m.LastTitleAt)
		up = zzMaxT(up, m.LastBodyAt)
		up = zzMaxT(up, m.LastEpicAt)
		for i, r := range t.Results {
			zzAssume(!r.CreatedAt.Before(t.CreatedAt))
			up = zzMaxT(up, r.CreatedAt)
			if i+1 < len(t.Results) {
				zzAssume(!r.CreatedAt.Before(t.Results[i+1].CreatedAt)) // newest first
			}
		}
		zzAssume(t.UpdatedAt.Equal(up))
		// a field that differs from its creation value was changed by an event, which left its instant
		zzAssume(t.State == m.CreatedState || !m.LastStateAt.IsZero())
		zzAssume(t.EpicID == m.CreatedEpicID || !m.LastEpicAt.IsZero())
		zzAssume(t.ClaimedBy == "" || !m.LastClaimAt.IsZero())
		if t.IsEpic {
			zzAssume(m.CreatedEpicID == "" && m.LastEpicAt.IsZero() && m.LastStateAt.IsZero() && m.CreatedState == "todo" && len(t.Results) == 0)
		} else {
			zzAssume(m.CreatedState == "todo") // the CLI creates every item as todo
		}
		// titles: CLI-created items have a non-blank creation title; a changed title left its instant
		zzAssume(m.CreatedTitle != "" && (t.Title == m.CreatedTitle || !m.LastTitleAt.IsZero()))
		zzAssume(t.Body == m.CreatedBody || !m.LastBodyAt.IsZero())
	}
}

func zzSameResults(a, b []Result) bool {
	if len(a) != len(b) {
		return false
	}
	ok := true
	for i := range a {
		if i < len(b) {
			x, y := a[i], b[i]
			if x.Summary != y.Summary || x.Path != y.Path || x.Sha256AtAttach != y.Sha256AtAttach || x.MtimeAtAttach != y.MtimeAtAttach ||
				x.GitCommitAtAttach != y.GitCommitAtAttach || !x.CreatedAt.Equal(y.CreatedAt) {
				ok = false
			}
		}
	}
	return ok
}

func zzC05Compact(spec string) {
	g, _ := zzC07Store(spec)
	zzAssumeI234(g)
	zzAssumeI6I7(g)
	events, err := compactEvents(g)
	zzAssert(err == nil, "C05/compact: compaction of a valid store succeeds")
	if err != nil {
		return
	}
	g2, rerr := replayEvents(events)
	zzAssert(rerr == nil, "C05/compact: the compacted log replays")
	if rerr != nil {
		return
	}
	zzReach("compacted")
	for k, t := range g.Tasks {
		p := g2.Tasks[k]
		zzAssert(p != nil, "C05/compact: every live item survives")
		if p == nil {
			continue
		}
		zzAssert(p.State == t.State && p.ClaimedBy == t.ClaimedBy, "C05/compact: state and claimant preserved")
		zzAssert(claimedAtForTask(p, g2.Meta[k]) == claimedAtForTask(t, g.Meta[k]), "C05/compact: claim time preserved")
		zzAssert(p.Title == t.Title && p.Body == t.Body, "C05/compact: title and body preserved")
		zzAssert(p.EpicID == t.EpicID && p.IsEpic == t.IsEpic && p.UUID == t.UUID, "C05/compact: epic, kind and uuid preserved")
		zzAssert(p.CreatedAt.Equal(t.CreatedAt) && p.UpdatedAt.Equal(t.UpdatedAt), "C05/compact: created/updated timestamps preserved")
		zzAssert(zzSameResults(p.Results, t.Results), "C05/compact: results preserved in order with their evidence")
		zzAssert(zzSameResults(p.Results, t.Results), "C20/compact: results survive compaction - none dropped, duplicated, reordered or altered")
		zzAssert(isReady(p, g2) == isReady(t, g) && isBlocked(p, g2) == isBlocked(t, g), "C05/compact: ready/blocked flags preserved")
	}
	for k := range g2.Tasks {
		_, was := g.Tasks[k]
		zzAssert(was, "C05/compact: no item appears")
	}
	if zzI4Holds(g) {
		zzAssert(zzI4Holds(g2), "C14/compact: after compaction every task's epic reference still names a live epic")
	}
	for k := range g.Tombstones {
		_, back := g2.Tasks[k]
		zzAssert(!back, "C05/compact: pruned ids stay absent")
	}
	for a := range g.Tasks {
		for b := range g.Tasks {
			zzAssert(zzEdge(g2, a, b) == zzEdge(g, a, b), "C05/compact: dependency edges preserved")
		}
	}
}

func zzC05_Compact_N2() {
	zzC05Compact("2;Results=1;RDeps=0;Tombstones=1;constkeys=Tasks,Meta,Deps")
}

// thorough tier: two results per task (order among results), still two items
func zzC05_Compact_N2R2() {
	zzC05Compact("2;Results=2;RDeps=0;Tombstones=1;constkeys=Tasks,Meta,Deps")
}

func zzC05_Compact_N3() {
	zzC05Compact("3;Results=2;RDeps=0;Tombstones=1;constkeys=Tasks,Meta,Deps")
}

// the order in which claim hands tasks out is preserved (same sequence of ids for any epic filter)
func zzC05_ClaimOrder() {
	g, _ := zzC07Store("2;Results=0;RDeps=0;Tombstones=0;constkeys=Tasks,Meta,Deps")
	zzAssumeI234(g)
	zzAssumeI6I7(g)
	events, err := compactEvents(g)
	if err != nil {
		return
	}
	g2, rerr := replayEvents(events)
	if rerr != nil {
		return
	}
	epic := zzString("epicFilter")
	r1 := readyTasks(g, epic, kindTask)
	r2 := readyTasks(g2, epic, kindTask)
	zzAssert(len(r1) == len(r2), "C05/order: same number of ready tasks")
	for i := range r1 {
		if i < len(r2) {
			zzAssert(r1[i].ID == r2[i].ID, "C05/order: claim would hand tasks out in the same order")
		}
	}
	zzReach("end")
}
