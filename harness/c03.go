package ergo

import "errors"

// C03 / C04 / C13 / C12: the storage protocol on the file model (real readEvents, appendEvents,
// writeEventsFile, replaceEventsAtomically, appendEventsAtomically, getEventsPath, loadGraph,
// withLock over system-call models; crash point = one symbolic integer per process).

func zzFSOpts(root string) (GlobalOptions, string) {
	opts := GlobalOptions{StartDir: root, AgentID: "agent-a"}
	dir, err := ergoDir(opts)
	zzAssume(err == nil)
	return opts, dir
}

func zzCountTasks(g *Graph) int {
	n := 0
	for range g.Tasks {
		n++
	}
	return n
}

// A process appending ONE event (new task) is killed at any point; then a reader; then a
// second, surviving writer; then a reader again. The world invariant (only the LAST line may be
// incomplete) is assumed at the start and asserted at the end, so the step covers any number of
// crash / write rounds.
func zzC03_CrashThenAppend()   { zzC03CrashThenAppend("1;winv=1;Results=0") }
func zzC03_CrashThenAppend_2() { zzC03CrashThenAppend("2;winv=1;Results=0") }

func zzC03CrashThenAppend(spec string) {
	root := zzFSInit(spec)
	opts, dir := zzFSOpts(root)
	logPath := getEventsPath(dir)
	_, tail0, _ := zzLogShape(logPath)
	g0, err0 := loadGraph(dir)
	zzNote("initial load: " + zzErrText(err0))
	zzAssume(err0 == nil) // the store is readable to begin with
	n0 := zzCountTasks(g0)

	zzProcBegin(true) // process A may die at any effect, its write may be torn
	_, errA := createTask(dir, opts, "", false, "title-a", "body-a")
	aliveA := zzProcAlive()

	zzNote("A returned " + zzErrText(errA))
	zzProcBegin(false) // reader R1
	_, tail1, _ := zzLogShape(logPath)
	g1, err1 := loadGraph(dir)
	zzNote("R1 returned " + zzErrText(err1))
	if tail0 {
		zzAssert(err1 == nil, "C03/crash: every read after a crash succeeds")
	} else {
		zzAssert(err1 == nil, "C03/crash[append after a torn tail]: every read after a crash succeeds")
	}
	if err1 != nil {
		return
	}
	n1 := zzCountTasks(g1)
	if tail0 {
		zzAssert(n1 == n0 || n1 == n0+1, "C03/crash: at most the interrupted command's own event is missing")
		if aliveA && errA == nil {
			zzAssert(n1 == n0+1, "C03/crash: an acknowledged command's event is in effect")
		}
	}

	// process B: a later mutation by a surviving process
	outB, errB := createTask(dir, opts, "", false, "title-b", "body-b")
	zzAssume(!errors.Is(errB, ErrLockBusy)) // nobody else holds the lock (A's died with it)
	g2, err2 := loadGraph(dir)
	zzReach("after-B")
	if tail1 {
		zzAssert(errB == nil, "C03/crash: a later mutation is not refused because of the store's shape")
		zzAssert(err2 == nil, "C03/crash: the store stays readable after a later mutation")
	} else {
		zzAssert(errB == nil && err2 == nil, "C03/crash[append after a torn tail]: a later mutation succeeds and leaves the store readable")
	}
	if errB == nil && err2 == nil {
		_, ok := g2.Tasks[outB.ID]
		zzAssert(ok, "C03/crash: the later mutation takes effect")
		zzAssert(zzCountTasks(g2) == n1+1, "C03/crash: and nothing else changes")
	}
}

// claim = two events (claim + state). Killed between (not inside) its writes: all or nothing.
func zzC04_ClaimAtomic() {
	root := zzFSInit("2;winv=1;clean=1;Results=0")
	opts, dir := zzFSOpts(root)
	g0, err0 := loadGraph(dir)
	zzAssume(err0 == nil)
	zzProcBegin(true)
	zzNoTornWrites()
	errA := RunClaimOldestReady("", opts)
	aliveA := zzProcAlive()
	zzProcBegin(false)
	g1, err1 := loadGraph(dir)
	zzAssert(err1 == nil, "C04/claim: store readable after the kill")
	if err1 != nil {
		return
	}
	_ = errA
	_ = aliveA
	for k, t := range g0.Tasks {
		p := g1.Tasks[k]
		if p == nil {
			continue
		}
		unchanged := p.State == t.State && p.ClaimedBy == t.ClaimedBy
		claimed := p.State == "doing" && p.ClaimedBy == "agent-a"
		zzAssert(unchanged || claimed, "C04/claim: after a kill the task is either untouched or fully claimed")
	}
	zzReach("end")
}

// set with several fields = several events; prune --yes of several finished tasks = several
// tombstones. Killed between (not inside) system calls: every item is as before or as after.
func zzC04_SetAtomic() {
	root := zzFSInit("1;winv=1;clean=1;Results=0")
	opts, dir := zzFSOpts(root)
	g0, err0 := loadGraph(dir)
	zzAssume(err0 == nil)
	id := zzString("id")
	zzAssume(id != "")
	zzProcBegin(true)
	zzNoTornWrites()
	_ = applySetUpdates(dir, opts, id, map[string]string{"title": "new-title", "body": "new-body"}, opts.AgentID, true)
	zzProcAlive()
	zzProcBegin(false)
	g1, err1 := loadGraph(dir)
	zzAssert(err1 == nil, "C04/set: store readable after the kill")
	if err1 != nil {
		return
	}
	for k, t := range g0.Tasks {
		p := g1.Tasks[k]
		if p == nil {
			continue
		}
		before := p.Title == t.Title && p.Body == t.Body
		after := p.Title == "new-title" && p.Body == "new-body"
		zzAssert(before || after, "C04/set: after a kill a multi-field set is entirely absent or entirely present")
	}
	zzReach("end")
}

func zzC04_PruneAtomic() {
	root := zzFSInit("2;winv=1;clean=1;Results=0")
	opts, dir := zzFSOpts(root)
	g0, err0 := loadGraph(dir)
	zzAssume(err0 == nil)
	n0 := zzCountTasks(g0)
	zzProcBegin(true)
	zzNoTornWrites()
	plan, errP := runPrune(dir, opts, true)
	aliveP := zzProcAlive()
	zzProcBegin(false)
	g1, err1 := loadGraph(dir)
	zzAssert(err1 == nil, "C04/prune: store readable after the kill")
	if err1 != nil {
		return
	}
	n1 := zzCountTasks(g1)
	if errP == nil {
		zzAssert(n1 == n0 || n1 == n0-len(plan.PrunedIDs), "C04/prune: after a kill prune removed all of its targets or none")
		if aliveP {
			zzAssert(n1 == n0-len(plan.PrunedIDs), "C04/prune: an acknowledged prune is in effect")
		}
	}
	zzReach("end")
}

// plan rewrites the log through a temp file + rename: killed anywhere, the log is the old one
// or the new one.
func zzC04_PlanAtomic() {
	root := zzFSInit("1;winv=1;clean=1;Results=0")
	opts, dir := zzFSOpts(root)
	g0, err0 := loadGraph(dir)
	zzAssume(err0 == nil)
	n0 := zzCountTasks(g0)
	p := zzPlanDoc("1;Tasks=1;After=0")
	zzStdinPiped(true)
	zzStdinPlan(p, false)
	zzAssume(p.Validate() == nil)
	zzProcBegin(true)
	errA := RunPlan(nil, opts)
	aliveA := zzProcAlive()
	zzProcBegin(false)
	g1, err1 := loadGraph(dir)
	zzAssert(err1 == nil, "C04/plan: store readable after a kill during plan")
	if err1 != nil {
		return
	}
	n1 := zzCountTasks(g1)
	zzNote("plan: err=" + zzErrText(errA) + " n0=" + zzItoa(n0) + " n1=" + zzItoa(n1) + " alive=" + zzBtoa(aliveA))
	zzAssert(n1 == n0 || n1 == n0+1+len(p.Tasks), "C04/plan: after a kill the plan is entirely absent or entirely present")
	zzAssert(n1 == n0 || n1 == n0+1+len(p.Tasks), "C11/atomic: plan creates the whole described graph or nothing, even when interrupted")
	if aliveA && errA == nil {
		zzAssert(n1 == n0+1+len(p.Tasks), "C04/plan: an acknowledged plan is in effect")
	}
	zzReach("end")
}

// compact with a stale temp file left behind by an earlier killed rewrite: the rewrite must not
// inherit anything from it.
func zzC03_CompactStaleTmp() {
	root := zzFSInit("1;winv=1;clean=1;nolinks=1;Results=0")
	opts, dir := zzFSOpts(root)
	g0, err0 := loadGraph(dir)
	zzAssume(err0 == nil)
	n0 := zzCountTasks(g0)
	zzProcBegin(false)
	errC := RunCompact(opts)
	zzAssume(!errors.Is(errC, ErrLockBusy))
	g1, err1 := loadGraph(dir)
	zzAssert(errC == nil, "C03/stale-tmp: compact succeeds whatever an earlier killed rewrite left behind")
	zzAssert(err1 == nil, "C03/stale-tmp: the store is readable after the rewrite")
	if err1 == nil {
		zzAssert(zzCountTasks(g1) == n0, "C03/stale-tmp: and holds the same items")
	}
	zzReach("end")
}

// A rewriting command (compact, plan) killed at any system call: every later read succeeds and
// still shows every acknowledged item; a later mutation works.
func zzC03CrashDuringRewrite(cmd int) {
	root := zzFSInit("1;winv=1;clean=1;nolinks=1;Results=0")
	opts, dir := zzFSOpts(root)
	g0, err0 := loadGraph(dir)
	zzAssume(err0 == nil)
	n0 := zzCountTasks(g0)
	delta := 0
	zzProcBegin(true)
	zzNoTornWrites() // a fragment can only land in the temp file, which no reader looks at
	if cmd == 0 {
		RunCompact(opts)
	} else {
		p := zzPlanDoc("1;Tasks=1;After=0")
		zzStdinPiped(true)
		zzStdinPlan(p, false)
		zzAssume(p.Validate() == nil)
		RunPlan(nil, opts)
		delta = 2
	}
	zzProcAlive()
	zzProcBegin(false)
	g1, err1 := loadGraph(dir)
	zzAssert(err1 == nil, "C03/rewrite: every read after a kill during a rewrite succeeds")
	if err1 != nil {
		return
	}
	n1 := zzCountTasks(g1)
	zzAssert(n1 == n0 || n1 == n0+delta, "C03/rewrite: no acknowledged item is lost by a killed rewrite")
	for k := range g0.Tasks {
		zzAssert(g1.Tasks[k] != nil, "C03/rewrite: every item acknowledged before the rewrite is still there")
	}
	_, errB := createTask(dir, opts, "", false, "title-b", "body-b")
	zzAssume(!errors.Is(errB, ErrLockBusy))
	g2, err2 := loadGraph(dir)
	zzAssert(errB == nil && err2 == nil, "C03/rewrite: a later mutation succeeds and leaves the store readable")
	if err2 == nil && errB == nil {
		zzAssert(zzCountTasks(g2) == n1+1, "C03/rewrite: and adds exactly its own item")
	}
	zzReach("end")
}

func zzC03_CrashDuringCompact() { zzC03CrashDuringRewrite(0) }
func zzC03_CrashDuringPlan()    { zzC03CrashDuringRewrite(1) }

// CUT used by the storage-protocol units: the derived Deps/RDeps slices are not computed
// (sortedKeys summarised as "no keys"); nothing these units assert reads them. compactEvents also
// enumerates the edges through sortedKeys, so the units that compact start from logs without
// link / unlink lines (nolinks=1), for which the summary is exact.
func zzSortedKeysCut(items map[string]struct{}) []string { return nil }

// ---------------------------------------------------------------- C13
// A reader that runs while a writer is active sees the file as of one instant, i.e. after some
// prefix of the writer's (atomic) system calls: the same "prefix of effects" variable as a
// crash point, without torn writes and without the writer dying.
func zzC13ReaderDuring(writer int) {
	spec := "2;winv=1;clean=1;Results=0"
	if writer >= 2 {
		spec = "1;winv=1;clean=1;nolinks=1;Results=0" // the rewriting commands replay and re-emit the whole log
	}
	root := zzFSInit(spec)
	opts, dir := zzFSOpts(root)
	g0, err0 := loadGraph(dir)
	zzAssume(err0 == nil)
	n0 := zzCountTasks(g0)
	zzProcBegin(true) // the writer has performed an arbitrary prefix of its system calls ...
	zzNoTornWrites()  // ... each of them atomic
	delta := 0
	switch writer {
	case 0:
		createTask(dir, opts, "", false, "title-a", "body-a")
		delta = 1
	case 1:
		RunClaimOldestReady("", opts)
	case 2:
		RunCompact(opts)
	case 3:
		p := zzPlanDoc("1;Tasks=1;After=0")
		zzStdinPiped(true)
		zzStdinPlan(p, false)
		zzAssume(p.Validate() == nil)
		RunPlan(nil, opts)
		delta = 2
	}
	zzProcAlive()
	zzProcBegin(false) // the reader (list / show take no lock)
	zzReaderInstants() // its stat of the log path may be older than its open
	g1, err1 := loadGraph(dir)
	zzAssert(err1 == nil, "C13/reader: a read concurrent with a writer succeeds")
	if err1 != nil {
		return
	}
	n1 := zzCountTasks(g1)
	zzAssert(n1 == n0 || n1 == n0+delta, "C13/reader: it shows a state the store passed through (never an empty or mixed store)")
	if writer == 1 {
		for k, t := range g0.Tasks {
			p := g1.Tasks[k]
			zzAssert(p != nil && (p.State == t.State || p.State == "doing"), "C13/reader: concurrent claim shows the task before or after its events")
		}
	}
	zzReach("end")
}

func zzC13_DuringNewTask() { zzC13ReaderDuring(0) }
func zzC13_DuringClaim()   { zzC13ReaderDuring(1) }
func zzC13_DuringCompact() { zzC13ReaderDuring(2) }
func zzC13_DuringPlan()    { zzC13ReaderDuring(3) }

// ---------------------------------------------------------------- C02 / C01: lock discipline
// Per command, on the real code: writes (and the reads that feed them) happen inside an exclusive,
// non-blocking flock section; a failed lock attempt is followed by no write. Together with the
// kernel's mutual exclusion of LOCK_EX holders (assumption A1/A5) this serialises the sections.
func zzC02Discipline(cmd int) {
	spec := "1;winv=1;clean=1;Results=0"
	if cmd == 1 {
		spec = "2;winv=1;clean=1;Results=0" // claim --epic needs an epic and a task in it
	}
	root := zzFSInit(spec)
	opts, dir := zzFSOpts(root)
	_, err0 := loadGraph(dir)
	zzAssume(err0 == nil)
	zzProcBegin(false)
	var err error
	switch cmd {
	case 0:
		_, err = createTask(dir, opts, "", false, "title-a", "body-a")
	case 1:
		err = RunClaimOldestReady(zzString("epic"), opts) // with or without --epic (any id)
	case 2:
		err = RunCompact(opts)
	case 3:
		p := zzPlanDoc("1;Tasks=1;After=0")
		zzStdinPiped(true)
		zzStdinPlan(p, false)
		err = RunPlan(nil, opts)
	case 4:
		err = RunSequence([]string{zzString("A"), zzString("B")}, opts)
	case 5:
		_, err = runPrune(dir, opts, true)
	case 6:
		err = applySetUpdates(dir, opts, zzString("id"), zzSetRequest(), opts.AgentID, true)
	case 7: // set with a result attachment: its own locked section (writeResultEvent)
		err = applySetUpdates(dir, opts, zzString("id"), map[string]string{"result.path": zzString("rpath"), "result.summary": zzString("rsummary")}, opts.AgentID, true)
	}
	wil, ril, nb, exl := zzLockDiscipline()
	zzAssert(wil, "C02/struct: every write, truncate and rename on the log happens while holding the flock")
	zzAssert(ril, "C02/struct: every read of the log that feeds a later write happens while holding the flock")
	zzAssert(nb, "C02/struct: every flock is non-blocking (LOCK_NB): a command never waits for the lock")
	zzAssert(exl, "C02/struct: every flock taken by a mutating command is exclusive (LOCK_EX)")
	zzAssert(zzLockFileStable(), "C02/struct: the lock file is created in place and never replaced by a rename (commands that opened the old file and commands that open the new one would hold locks on different files)")
	zzAssert(zzLockFDOwned(), "C02/struct: the locked descriptor is a raw descriptor owned by withLock (not an *os.File's, which the runtime may close - and so unlock - at any garbage collection)")
	if errors.Is(err, ErrLockBusy) {
		_, _, n := zzLogShape(getEventsPath(dir))
		_ = n
		zzReach("lock-busy")
	}
	zzReach("end")
}

func zzC02_NewTask()  { zzC02Discipline(0) }
func zzC02_Claim()    { zzC02Discipline(1) }
func zzC02_Compact()  { zzC02Discipline(2) }
func zzC02_Plan()     { zzC02Discipline(3) }
func zzC02_Sequence() { zzC02Discipline(4) }
func zzC02_Prune()    { zzC02Discipline(5) }
func zzC02_Set()      { zzC02Discipline(6) }
func zzC02_SetResult() { zzC02Discipline(7) }
