package ergo

// C14: every task's epic reference names a live epic.
// C15: accepted plans can always make progress.

// `new task` with an epic argument, through the real createTask.
func zzC14_NewTaskEpic() {
	g := zzC14Store("3;Results=0;RDeps=0;Tombstones=1;Deps=0;constkeys=Tasks,Meta")
	root := zzWorldInit(g)
	opts := GlobalOptions{StartDir: root}
	dir, derr := ergoDir(opts)
	zzAssume(derr == nil)
	epicArg := zzString("epicArg")
	isEpic := zzBool("isEpic")
	out, err := createTask(dir, opts, epicArg, isEpic, zzString("title"), zzString("body"))
	if err != nil {
		zzAssert(len(zzWritten()) == 0, "C14/new: rejected create writes nothing")
		zzReach("new-rejected")
		return
	}
	zzReach("new-accepted")
	parent := g.Tasks[epicArg]
	if !isEpic && epicArg != "" {
		zzAssert(parent != nil, "C14/new: epic argument names a live item")
		if parent != nil && !parent.IsEpic {
			if parent.EpicID == "" {
				zzAssert(false, "C14/new[root task as epic]: a plain root task is accepted as parent epic")
			} else {
				zzAssert(false, "C14/new: a task inside an epic is accepted as parent epic")
			}
		}
	}
	g2, perr := zzPost()
	zzAssert(perr == nil, "C14/new: store replays after create")
	if perr != nil {
		return
	}
	nt := g2.Tasks[out.ID]
	zzAssert(nt != nil, "C14/new: created item is live")
	if nt == nil {
		return
	}
	if isEpic {
		zzAssert(nt.IsEpic && nt.EpicID == "", "C14/new: epics never belong to anything")
	} else if parent == nil || parent.IsEpic {
		zzAssert(zzI4Holds(g2), "C14/new: every epic reference names a live epic afterwards")
	}
}

// `set {"epic": X}` through the real applySetUpdates.
func zzC14_SetEpic() {
	g := zzC14Store("3;Results=0;RDeps=0;Tombstones=1;Deps=0;constkeys=Tasks,Meta")
	root := zzWorldInit(g)
	opts := GlobalOptions{StartDir: root, AgentID: zzString("agent")}
	dir, derr := ergoDir(opts)
	zzAssume(derr == nil)
	id := zzString("id")
	updates := zzSetRequest()
	epicArg, hasEpic := updates["epic"]
	zzAssume(hasEpic)
	err := applySetUpdates(dir, opts, id, updates, opts.AgentID, true)
	if err != nil {
		zzAssert(len(zzWritten()) == 0, "C14/set: rejected set writes nothing")
		zzReach("set-rejected")
		return
	}
	zzReach("set-accepted")
	target := g.Tasks[epicArg]
	_, pruned := g.Tombstones[epicArg]
	switch {
	case epicArg == "":
	case pruned:
		zzAssert(false, "C14/set[epic unchecked]: a pruned id is accepted as epic")
	case target == nil:
		zzAssert(false, "C14/set[epic unchecked]: an unknown id is accepted as epic")
	case !target.IsEpic:
		zzAssert(false, "C14/set[epic unchecked]: a plain task is accepted as epic")
	default:
		g2, perr := zzPost()
		zzAssert(perr == nil, "C14/set: store replays after set")
		if perr == nil {
			zzAssert(zzI4Holds(g2), "C14/set: every epic reference names a live epic afterwards")
			t2 := g2.Tasks[id]
			zzAssert(t2 != nil && t2.EpicID == epicArg, "C14/set: task is now in the requested epic")
		}
	}
	pre := g.Tasks[id]
	zzAssert(pre != nil && !pre.IsEpic, "C14/set: only live tasks (never epics) can be given an epic")
}

// ---------------------------------------------------------------- C15

func zzNoActiveHolds(g *Graph) (anyTodo bool, held bool) {
	for _, t := range g.Tasks {
		if t.IsEpic {
			continue
		}
		if t.State == "todo" {
			anyTodo = true
		}
		if t.State == "doing" || t.State == "blocked" || t.State == "error" {
			held = true
		}
	}
	return
}

func zzAnyReady(g *Graph) bool {
	r := false
	for _, t := range g.Tasks {
		if !t.IsEpic && isReady(t, g) {
			r = true
		}
	}
	return r
}

// zzAssumeWaitsAcyclic: the effective waits-for relation between tasks (own dependencies plus
// those inherited from the epic's dependencies) has a rank function.
func zzAssumeWaitsAcyclic(g *Graph, rank map[string]int) {
	for _, t := range g.Tasks {
		if t.IsEpic {
			continue
		}
		for d := range g.Deps[t.ID] {
			u := g.Tasks[d]
			if u != nil && !u.IsEpic {
				zzAssume(rank[t.ID] > rank[d])
			}
		}
		if t.EpicID != "" {
			for de := range g.Deps[t.EpicID] {
				e := g.Tasks[de]
				if e == nil || !e.IsEpic {
					continue
				}
				for _, u := range g.Tasks {
					if !u.IsEpic && u.EpicID == de {
						zzAssume(rank[t.ID] > rank[u.ID])
					}
				}
			}
		}
	}
}

func zzC15Progress(spec string, assumeCombined bool) {
	g, _ := zzC07Store(spec) // I1, I5 (per-kind acyclic)
	zzAssumeI234(g)
	if assumeCombined {
		rank := map[string]int{}
		zzHavoc("wrank", &rank, spec)
		zzAssumeWaitsAcyclic(g, rank)
	}
	anyTodo, held := zzNoActiveHolds(g)
	if anyTodo && !held {
		zzReach("stuck-candidate")
		if assumeCombined {
			zzAssert(zzAnyReady(g), "C15/progress: todo work and nothing held => some task is ready (waits-for acyclic)")
		} else {
			zzAssert(zzAnyReady(g), "C15/progress[cross-level cycle]: todo work and nothing held => some task is ready")
		}
	}
}

func zzC15_ProgressAcyclic_N4() {
	zzC15Progress("4;Results=0;RDeps=0;Tombstones=0;constkeys=Tasks,Meta,Deps", true)
}
func zzC15_ProgressAny_N4() {
	zzC15Progress("4;Results=0;RDeps=0;Tombstones=0;constkeys=Tasks,Meta,Deps", false)
}
func zzC15_ProgressAcyclic_N3() {
	zzC15Progress("3;Results=0;RDeps=0;Tombstones=0;constkeys=Tasks,Meta,Deps", true)
}
