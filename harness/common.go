package ergo

// Shared specifications, invariants and store builders used by several property harnesses.
// They refer only to ergo's data model (Graph, Task, TaskMeta) and exported entry points, never to
// command internals, so that a refactoring of the internals cannot break unrelated checks.

import "strings"

func zzSixStates(s string) bool {
	return s == "todo" || s == "doing" || s == "done" || s == "blocked" || s == "canceled" || s == "error"
}

func zzDocTransition(from, to string) bool {
	if from == to {
		return true
	}
	switch from {
	case "todo":
		return to == "doing" || to == "done" || to == "blocked" || to == "canceled"
	case "doing":
		return to == "todo" || to == "done" || to == "blocked" || to == "canceled" || to == "error"
	case "blocked":
		return to == "todo" || to == "doing" || to == "done" || to == "canceled"
	case "done":
		return to == "todo"
	case "canceled":
		return to == "todo"
	case "error":
		return to == "todo" || to == "doing" || to == "canceled"
	}
	return false
}

// zzClaimRule: claimed whenever doing or error; unclaimed whenever todo, done or canceled.
func zzClaimRule(state, claimedBy string) bool {
	switch state {
	case "doing", "error":
		return claimedBy != ""
	case "todo", "done", "canceled":
		return claimedBy == ""
	}
	return true
}

// zzSetRequest builds an arbitrary update map over the keys buildSetEvents knows.
func zzSetRequest() map[string]string {
	updates := map[string]string{}
	if zzBool("req.has.title") {
		updates["title"] = zzString("req.title")
	}
	if zzBool("req.has.body") {
		updates["body"] = zzString("req.body")
	}
	if zzBool("req.has.epic") {
		updates["epic"] = zzString("req.epic")
	}
	if zzBool("req.has.claim") {
		updates["claim"] = zzString("req.claim")
	}
	if zzBool("req.has.state") {
		updates["state"] = zzString("req.state")
	}
	return updates
}

func zzEdge(g *Graph, from, to string) bool {
	_, ok := g.Deps[from][to]
	return ok
}

// zzI1: representation invariant of a replayed store (CoreInv).
func zzAssumeI1(g *Graph) {
	for k, t := range g.Tasks {
		zzAssume(t.ID == k)
		zzAssume(k != "")
		_, tomb := g.Tombstones[k]
		zzAssume(!tomb)
		_, hasMeta := g.Meta[k]
		zzAssume(hasMeta)
		zzAssume(strings.TrimSpace(t.Title) != "") // I8: replay's legacy-title migration has run
	}
	for k := range g.Meta {
		_, ok := g.Tasks[k]
		zzAssume(ok)
	}
	for from, deps := range g.Deps {
		_, tomb := g.Tombstones[from]
		zzAssume(!tomb)
		zzAssume(len(deps) > 0) // applyTombstone / replay never leave an empty inner map... (link creates, unlink may empty)
		for to := range deps {
			_, tomb2 := g.Tombstones[to]
			zzAssume(!tomb2)
		}
	}
}

// zzAssumeI5: every edge joins two live items of the same kind, no self-edge, no cycle
// (acyclicity stated with a symbolic rank function: edge u->v => rank(u) > rank(v)).
func zzAssumeI5(g *Graph, ranks map[string]int) {
	for from, deps := range g.Deps {
		f := g.Tasks[from]
		zzAssume(f != nil)
		for to := range deps {
			t := g.Tasks[to]
			zzAssume(t != nil)
			zzAssume(from != to)
			zzAssume(f.IsEpic == t.IsEpic)
			zzAssume(ranks[from] > ranks[to])
		}
	}
}

// zzI5Holds: the same, checked (cycles up to the number of slots are enumerated explicitly).
func zzEdgesWellFormed(g *Graph) bool {
	ok := true
	for from, deps := range g.Deps {
		f := g.Tasks[from]
		if f == nil {
			ok = false
			continue
		}
		for to := range deps {
			t := g.Tasks[to]
			if t == nil || from == to || f.IsEpic != t.IsEpic {
				ok = false
			}
		}
	}
	return ok
}

func zzHasCycle3(g *Graph) bool {
	cyc := false
	for a := range g.Tasks {
		if zzEdge(g, a, a) {
			cyc = true
		}
		for b := range g.Tasks {
			if !zzEdge(g, a, b) {
				continue
			}
			if zzEdge(g, b, a) {
				cyc = true
			}
			for c := range g.Tasks {
				if zzEdge(g, b, c) && zzEdge(g, c, a) {
					cyc = true
				}
			}
		}
	}
	return cyc
}

func zzMirror(g *Graph) bool {
	ok := true
	for id, t := range g.Tasks {
		for _, d := range t.Deps {
			if !zzEdge(g, id, d) {
				ok = false
			}
			o := g.Tasks[d]
			if o != nil {
				found := false
				for _, r := range o.RDeps {
					if r == id {
						found = true
					}
				}
				if !found {
					ok = false
				}
			}
		}
		for _, r := range t.RDeps {
			if !zzEdge(g, r, id) {
				ok = false
			}
		}
		for d := range g.Deps[id] {
			found := false
			for _, x := range t.Deps {
				if x == d {
					found = true
				}
			}
			if !found {
				ok = false
			}
		}
	}
	return ok
}

// zzReachSpec: target is reachable from start along Deps edges (0 or more), as a bounded
// fixpoint over the edge relation (n rounds suffice for n slots). Independent of isReachable.
func zzReachSpec(g *Graph, start, target string, rounds int) bool {
	if start == target {
		return true
	}
	r := map[string]bool{}
	for i := 0; i < rounds; i++ {
		for x, deps := range g.Deps {
			if x == start || r[x] {
				for y := range deps {
					r[y] = true
				}
			}
		}
	}
	return r[target]
}

// summary of hasCycle used by the step harnesses (hasCycle itself is checked against it in
// zzC07_HasCycle): adding from->to closes a cycle iff from is reachable from to.
func zzHasCycleSpec(g *Graph, from, to string) bool {
	return from == to || zzReachSpec(g, to, from, 4)
}

func zzC07Store(spec string) (*Graph, map[string]int) {
	g := &Graph{}
	zzHavoc("g", g, spec)
	ranks := map[string]int{}
	zzHavoc("rank", &ranks, spec)
	zzAssumeI1(g)
	zzAssumeI5(g, ranks)
	return g, ranks
}

func zzInList(xs []string, x string) bool {
	for _, y := range xs {
		if y == x {
			return true
		}
	}
	return false
}

// zzPruneSpec: done/canceled tasks, and epics left without any remaining (unpruned) child.
func zzPruneSpec(g *Graph, t *Task) bool {
	if !t.IsEpic {
		return t.State == "done" || t.State == "canceled"
	}
	for _, c := range g.Tasks {
		if !c.IsEpic && c.EpicID == t.ID && !(c.State == "done" || c.State == "canceled") {
			return false
		}
	}
	return true
}

// zzAssumeI2I3I4: epics have no epic/state/claim; tasks obey the six states and the claim
// rule; a task's epic is "" or a live epic.
func zzAssumeI234(g *Graph) {
	for _, t := range g.Tasks {
		if t.IsEpic {
			zzAssume(t.EpicID == "" && t.State == "todo" && t.ClaimedBy == "")
		} else {
			zzAssume(zzSixStates(t.State) && zzClaimRule(t.State, t.ClaimedBy))
			if t.EpicID != "" {
				e := g.Tasks[t.EpicID]
				zzAssume(e != nil && e.IsEpic)
			}
		}
	}
}

func zzI4Holds(g *Graph) bool {
	ok := true
	for _, t := range g.Tasks {
		if t.IsEpic {
			if t.EpicID != "" {
				ok = false
			}
			continue
		}
		if t.EpicID != "" {
			e := g.Tasks[t.EpicID]
			if e == nil || !e.IsEpic {
				ok = false
			}
		}
	}
	return ok
}

func zzC14Store(spec string) *Graph {
	g, _ := zzC07Store(spec)
	zzAssumeI234(g)
	return g
}

func zzDoneOrCanceled(s string) bool { return s == "done" || s == "canceled" }

// zzReadySpec: todo, unclaimed, every task it depends on is done/canceled/pruned(absent),
// and every epic its epic depends on has only done or canceled children.
func zzReadySpec(g *Graph, t *Task) bool {
	if t.State != "todo" || t.ClaimedBy != "" {
		return false
	}
	for dep := range g.Deps[t.ID] {
		other := g.Tasks[dep]
		if other != nil && !zzDoneOrCanceled(other.State) {
			return false
		}
	}
	if t.EpicID != "" {
		for depEpic := range g.Deps[t.EpicID] {
			e := g.Tasks[depEpic]
			if e == nil || !e.IsEpic {
				continue
			}
			for _, child := range g.Tasks {
				if child.EpicID == depEpic && !zzDoneOrCanceled(child.State) {
					return false
				}
			}
		}
	}
	return true
}

func zzBlockedSpec(g *Graph, t *Task) bool {
	if t.State == "blocked" {
		return true
	}
	return t.State == "todo" && t.ClaimedBy == "" && !zzReadySpec(g, t)
}

func zzCmdStore() *Graph {
	g := zzC14Store("2;Results=0;RDeps=0;Tombstones=1;constkeys=Tasks,Meta,Deps")
	// the pruned id is pinned so that a replay can force the random draw onto it (zzPinRand)
	for k := range g.Tombstones {
		zzAssume(k == "AAAAAA")
	}
	return g
}

func zzCmdOpts(root string) GlobalOptions {
	var opts GlobalOptions
	zzHavoc("opts", &opts, "0")
	opts.StartDir = root
	opts.Verbose = false
	return opts
}

// input modes: 0 = JSON on stdin, 1 = flags only (stdin is a terminal), 2 = --body-stdin
func zzCmdMode(opts *GlobalOptions, mode int) {
	switch mode {
	case 0:
		opts.BodyStdin = false
		zzStdinPiped(true)
	case 1:
		opts.BodyStdin = false
		zzStdinPiped(false)
	case 2:
		opts.BodyStdin = true
		zzStdinPiped(true)
	}
}

func zzTaskInput() *TaskInput {
	in := &TaskInput{}
	zzHavoc("in", in, "0")
	return in
}

// observations common to every command
func zzAfter(name string, err error, jsonMode bool) {
	zzNote(name + " returned: " + zzErrText(err))
	nJSON := zzOutCount("stdout", "json")
	nText := zzOutCount("stdout", "text")
	if err != nil {
		zzReach(name + "-failed")
		zzAssert(nJSON <= 1, "C16/"+name+": a failing command writes at most one JSON value to stdout")
		if jsonMode {
			zzAssert(nText == 0, "C16/"+name+": a failing --json command writes no plain text to stdout")
		}
		return
	}
	zzReach(name + "-ok")
	if jsonMode {
		zzAssert(nJSON == 1, "C16/"+name+": a successful --json command writes exactly one JSON value")
		zzAssert(nText == 0, "C16/"+name+": a successful --json command writes nothing else to stdout")
	}
}

// zzTaskOK: the touched task obeys the six states and the claim rule, epics stay stateless.
func zzItemOK(t *Task) bool {
	if t == nil {
		return true
	}
	if t.IsEpic {
		return t.State == "todo" && t.ClaimedBy == "" && t.EpicID == ""
	}
	return zzSixStates(t.State) && zzClaimRule(t.State, t.ClaimedBy)
}

func zzUnchangedItem(a, b *Task) bool {
	if a == nil || b == nil {
		return a == nil && b == nil
	}
	return a.State == b.State && a.ClaimedBy == b.ClaimedBy && a.EpicID == b.EpicID && a.Title == b.Title && a.Body == b.Body && a.IsEpic == b.IsEpic
}
