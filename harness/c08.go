package ergo

// C08: ready/blocked mean what the manual says; claim takes the oldest ready task.
// Oracle: the two sentences of the statement as first-order formulas over the graph.

func zzDoneOrCanceled(s string) bool { return s == "done" || s == "canceled" }

// zzReadySpec: todo, unclaimed, every task it depends on is done/canceled/pruned(absent),
// and every epic its epic depends on has only done or canceled children.
func zzReadySpec(g *Graph, t *Task) bool {
	if t.State != "todo" || t.ClaimedBy != "" {
		return false
	}
	for dep := range g.Deps[t.ID] {
		other := g.Tasks[dep]
		if other != nil && !zzDoneOrCanceled(other.State) {
			return false
		}
	}
	if t.EpicID != "" {
		for depEpic := range g.Deps[t.EpicID] {
			e := g.Tasks[depEpic]
			if e == nil || !e.IsEpic {
				continue
			}
			for _, child := range g.Tasks {
				if child.EpicID == depEpic && !zzDoneOrCanceled(child.State) {
					return false
				}
			}
		}
	}
	return true
}

func zzBlockedSpec(g *Graph, t *Task) bool {
	if t.State == "blocked" {
		return true
	}
	return t.State == "todo" && t.ClaimedBy == "" && !zzReadySpec(g, t)
}

func zzC08Graph(spec string) *Graph {
	g := &Graph{}
	zzHavoc("g", g, spec)
	// I1: Tasks[k].ID == k
	for k, t := range g.Tasks {
		zzAssume(t.ID == k)
	}
	return g
}

func zzC08_ReadyBlocked_N3() {
	zzC08ReadyBlocked("3;Results=0;RDeps=0;Meta=0;Tombstones=0")
}

func zzC08_ReadyBlocked_N4() {
	zzC08ReadyBlocked("4;Results=0;RDeps=0;Meta=0;Tombstones=0")
}

func zzC08ReadyBlocked(spec string) {
	g := zzC08Graph(spec)
	for _, t := range g.Tasks {
		zzAssert(isReady(t, g) == zzReadySpec(g, t), "isReady==ReadySpec")
		zzAssert(isBlocked(t, g) == zzBlockedSpec(g, t), "isBlocked==BlockedSpec")
	}
	zzReach("end")
}
