package ergo

// C08: ready/blocked mean what the manual says; claim takes the oldest ready task.
// Oracle: the two sentences of the statement as first-order formulas over the graph.

func zzC08Graph(spec string) *Graph {
	g := &Graph{}
	zzHavoc("g", g, spec)
	// I1: Tasks[k].ID == k
	for k, t := range g.Tasks {
		zzAssume(t.ID == k)
	}
	return g
}

func zzC08_ReadyBlocked_N3() {
	zzC08ReadyBlocked("3;Results=0;RDeps=0;Meta=0;Tombstones=0")
}

func zzC08_ReadyBlocked_N4() {
	zzC08ReadyBlocked("4;Results=0;RDeps=0;Meta=0;Tombstones=0")
}

func zzC08ReadyBlocked(spec string) {
	g := zzC08Graph(spec)
	for _, t := range g.Tasks {
		zzAssert(isReady(t, g) == zzReadySpec(g, t), "isReady==ReadySpec")
		zzAssert(isBlocked(t, g) == zzBlockedSpec(g, t), "isBlocked==BlockedSpec")
	}
	zzReach("end")
}

// The scoped views: `list --ready [--epic E]` and what `claim [--epic E]` chooses from are exactly
// the items in scope for which the ready predicate holds (the predicate itself is checked against
// the manual by the unit above).
func zzC08ScopedReady(spec string) {
	g := zzC08Graph(spec)
	e := zzString("epic")
	listed := listTasks(g, e, true)
	cands := readyTasks(g, e, kindTask)
	for _, t := range g.Tasks {
		inScope := e == "" || t.EpicID == e
		want := inScope && zzReadySpec(g, t)
		nl, nc := 0, 0
		for _, x := range listed {
			if x == t {
				nl++
			}
		}
		for _, x := range cands {
			if x == t {
				nc++
			}
		}
		if want {
			zzAssert(nl == 1, "C08/scope: list --ready [--epic E] shows every ready item in scope once")
		} else {
			zzAssert(nl == 0, "C08/scope: list --ready [--epic E] shows nothing that is out of scope or not ready")
		}
		if want && !t.IsEpic {
			zzAssert(nc == 1, "C08/scope: claim [--epic E] considers every ready task in scope")
		} else {
			zzAssert(nc == 0, "C08/scope: claim [--epic E] considers nothing that is out of scope, not ready, or an epic")
		}
	}
	zzReach("end")
}

func zzC08_ScopedReady_N3() { zzC08ScopedReady("3;Results=0;RDeps=0;Meta=0;Tombstones=0") }
func zzC08_ScopedReady_N4() { zzC08ScopedReady("4;Results=0;RDeps=0;Meta=0;Tombstones=0") }
