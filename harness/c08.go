package ergo

// C08: ready/blocked mean what the manual says; claim takes the oldest ready task.
// Oracle: the two sentences of the statement as first-order formulas over the graph.

func zzC08Graph(spec string) *Graph {
	g := &Graph{}
	zzHavoc("g", g, spec)
	// I1: Tasks[k].ID == k
	for k, t := range g.Tasks {
		zzAssume(t.ID == k)
	}
	return g
}

func zzC08_ReadyBlocked_N3() {
	zzC08ReadyBlocked("3;Results=0;RDeps=0;Meta=0;Tombstones=0")
}

func zzC08_ReadyBlocked_N4() {
	zzC08ReadyBlocked("4;Results=0;RDeps=0;Meta=0;Tombstones=0")
}

func zzC08ReadyBlocked(spec string) {
	g := zzC08Graph(spec)
	for _, t := range g.Tasks {
		zzAssert(isReady(t, g) == zzReadySpec(g, t), "isReady==ReadySpec")
		zzAssert(isBlocked(t, g) == zzBlockedSpec(g, t), "isBlocked==BlockedSpec")
	}
	zzReach("end")
}
