// Native side of the file-model intrinsics (engine side: /verif/engine/world_fs.go).
package ergo

import (
	"encoding/json"
	"os"
	"path/filepath"
	"strconv"
	"strings"
)

type zzFSState struct {
	proc     int
	snapLog  []byte
	snapTmp  []byte
	tmpExist bool
	crashed  bool
	snapAll  map[string]string
	initial  map[string]bool
}

var zzFS zzFSState

func zzLogPath() string { return filepath.Join(zzW.dir, plansFileName) }

// zzFSInit builds the initial world of the scenario as real files and returns the project root.
func zzFSInit(spec string) string {
	zzWorldCleanup()
	root, err := os.MkdirTemp("", "ergo-zzfs-")
	if err != nil {
		panic(err)
	}
	zzW = &zzWorldT{root: root, dir: filepath.Join(root, ".ergo")}
	zzFS = zzFSState{}
	os.MkdirAll(zzW.dir, 0755)
	vals := zzLoad().Values
	m := 2
	clean := false
	logExists := false
	for i, p := range strings.Split(spec, ";") {
		if i == 0 && !strings.Contains(p, "=") {
			m, _ = strconv.Atoi(p)
		}
		if p == "clean=1" {
			clean = true
		}
		if p == "logexists=1" {
			logExists = true
		}
	}
	if vals["fs.log.exists"] == "true" || logExists {
		var buf []byte
		for i := 0; i < m; i++ {
			n := "fs.log#" + strconv.Itoa(i)
			if vals[n+".pres"] != "true" {
				continue
			}
			blank, parses, complete := vals[n+".blank"] == "true", vals[n+".parses"] == "true", vals[n+".complete"] == "true"
			if clean {
				blank, parses, complete = false, true, true
			}
			var ev Event
			zzHavoc(n+".ev", &ev, "0")
			line, _ := json.Marshal(ev)
			switch {
			case blank:
				line = []byte("   ")
			case !parses:
				line = []byte(`{"type":"new_task","ts":"2026-01-01T00:00:00Z","data":{"id":"ZZZ`) // a torn prefix: not valid JSON
			}
			buf = append(buf, line...)
			if complete {
				buf = append(buf, '\n')
			}
		}
		os.WriteFile(zzLogPath(), buf, 0644)
	}
	if vals["fs.old.exists"] == "true" {
		var buf []byte
		for i := 0; i < m; i++ {
			n := "fs.old#" + strconv.Itoa(i)
			if vals[n+".pres"] != "true" {
				continue
			}
			var ev Event
			zzHavoc(n+".ev", &ev, "0")
			line, _ := json.Marshal(ev)
			buf = append(append(buf, line...), '\n')
		}
		os.WriteFile(filepath.Join(zzW.dir, oldEventsFileName), buf, 0644)
	}
	if vals["fs.lock.exists"] == "true" {
		os.WriteFile(filepath.Join(zzW.dir, "lock"), nil, 0644)
	}
	if vals["fs.tmp.exists"] == "true" {
		content := []byte{}
		if vals["fs.tmp.stale"] == "true" {
			content = []byte(strings.Repeat("{\"type\":\"stale\",\"ts\":\"x\",\"data\":{}}\n", 40))
		}
		os.WriteFile(zzLogPath()+".tmp", content, 0644)
	}
	zzFS.initial = map[string]bool{}
	if ents, err := os.ReadDir(zzW.dir); err == nil {
		for _, e := range ents {
			zzFS.initial[e.Name()] = true
		}
	}
	w := zzW
	w.savedOut, w.savedErr, w.savedIn = os.Stdout, os.Stderr, os.Stdin
	w.stdoutF, _ = os.Create(filepath.Join(root, "zz-stdout"))
	w.stderrF, _ = os.Create(filepath.Join(root, "zz-stderr"))
	os.Stdout, os.Stderr = w.stdoutF, w.stderrF
	if dn, err := os.Open(os.DevNull); err == nil {
		os.Stdin = dn
	}
	return root
}

// zzProcBegin: a new process starts. Natively the command runs to completion and zzProcAlive
// then rolls the files back to what a kill at the scenario's effect index would have left.
func zzProcBegin(mayCrash bool) {
	zzFS.proc++
	zzFS.snapAll = map[string]string{}
	if ents, err := os.ReadDir(zzW.dir); err == nil {
		for _, e := range ents {
			b, _ := os.ReadFile(filepath.Join(zzW.dir, e.Name()))
			zzFS.snapAll[e.Name()] = string(b)
		}
	}
	zzFS.snapLog, _ = os.ReadFile(zzLogPath())
	tmp, err := os.ReadFile(zzLogPath() + ".tmp")
	zzFS.snapTmp, zzFS.tmpExist = tmp, err == nil
}

func zzNoTornWrites() {}

type zzEffect struct {
	I       int    `json:"i"`
	Kind    string `json:"kind"`
	File    string `json:"file"`
	Leaf    string `json:"leaf"`
	SrcLeaf string `json:"srcleaf"`
	Proc    int    `json:"proc"`
}

func zzProcAlive() bool {
	s := zzLoad()
	p := strconv.Itoa(zzFS.proc)
	dv, ok := s.Values["world.die!"+p]
	if !ok {
		return true
	}
	die, _ := strconv.Atoi(dv)
	var effs []zzEffect
	if raw, ok := s.Meta["effects"]; ok {
		b, _ := json.Marshal(raw)
		json.Unmarshal(b, &effs)
	}
	var mine []zzEffect
	for _, e := range effs {
		// only the effects on the path this scenario takes
		if e.Proc == zzFS.proc && s.Values["world.eff!"+strconv.Itoa(e.I)] != "false" {
			mine = append(mine, e)
		}
	}
	if len(mine) == 0 || die > mine[len(mine)-1].I {
		return true
	}
	torn, tornAll := s.Values["world.torn!"+p] == "true", s.Values["world.tornall!"+p] == "true"
	// what the completed run produced
	finalLog, _ := os.ReadFile(zzLogPath())
	finalTmp, tmpErr := os.ReadFile(zzLogPath() + ".tmp")
	isTmp := func(e zzEffect) bool { return strings.Contains(e.File, ".tmp") }
	renamed := false
	hasRename := false
	for _, e := range mine {
		if e.Kind == "rename" {
			hasRename = true
			if e.I < die {
				renamed = true
			}
		}
	}
	splitLines := func(b []byte) [][]byte {
		var out [][]byte
		for len(b) > 0 {
			i := strings.IndexByte(string(b), '\n')
			if i < 0 {
				out = append(out, b)
				break
			}
			out = append(out, b[:i+1])
			b = b[i+1:]
		}
		return out
	}
	// The general emulation: replay the effect list on virtual files up to the cut. Used when
	// the simple shapes below do not apply: writes issued after a rename (a descriptor that
	// followed the file), more than one rename, or a rename that is not <log>.tmp -> <log>.
	general := false
	seenRename, nRename := false, 0
	for _, e := range mine {
		if e.Kind == "rename" {
			seenRename = true
			nRename++
			if !(strings.HasSuffix(e.SrcLeaf, ".tmp") && e.Leaf == strings.TrimSuffix(e.SrcLeaf, ".tmp")) {
				general = true
			}
		}
		if e.Kind == "write" && seenRename {
			general = true
		}
		if (e.Kind == "truncate" || e.Kind == "remove") && !strings.HasSuffix(e.Leaf, ".tmp") && e.Leaf != "" {
			general = true // the live log itself is cut or unlinked
		}
	}
	if nRename > 1 {
		general = true
	}
	leafOK := true
	for _, e := range mine {
		if e.Leaf == "" && e.Kind != "open" {
			leafOK = false
		}
	}
	if general && leafOK {
		// every line the completed run wrote ended up, in order, in the file that now carries the
		// log's name (rewrites) or at the end of the log (appends)
		logLeaf := filepath.Base(zzLogPath())
		var written [][]byte
		src := finalLog
		if !seenRename {
			src = finalLog[len(zzFS.snapLog):]
		}
		for b := src; len(b) > 0; {
			i := strings.IndexByte(string(b), '\n')
			if i < 0 {
				written = append(written, b)
				break
			}
			written = append(written, b[:i+1])
			b = b[i+1:]
		}
		// pass 1: the complete run on virtual files holding references to write effects, to learn
		// which line of the final files each write produced
		type ref struct{ w, j int } // j-th line of write effect number w (in path order)
		linesOf := func(e zzEffect) int {
			if v, ok := s.Meta["effect"+strconv.Itoa(e.I)+".lines"].(float64); ok && int(v) > 1 {
				return int(v)
			}
			return 1
		}
		vrefs := map[string][]ref{}
		prefix := map[string]int{} // lines a file already had before this process
		for name, c := range zzFS.snapAll {
			vrefs[name] = nil
			prefix[name] = strings.Count(c, "\n")
			if len(c) > 0 && !strings.HasSuffix(c, "\n") {
				prefix[name]++
			}
		}
		perFileOrdinal := map[int]int{} // write effect -> how many lines were written to its file before it
		wn := 0
		for _, e := range mine {
			switch e.Kind {
			case "create":
				if _, ok := vrefs[e.Leaf]; !ok {
					vrefs[e.Leaf], prefix[e.Leaf] = nil, 0
				}
			case "truncate":
				vrefs[e.Leaf], prefix[e.Leaf] = nil, 0
			case "rename":
				if r, ok := vrefs[e.SrcLeaf]; ok {
					vrefs[e.Leaf], prefix[e.Leaf] = r, prefix[e.SrcLeaf]
					delete(vrefs, e.SrcLeaf)
				}
			case "remove":
				delete(vrefs, e.Leaf)
			case "write":
				perFileOrdinal[wn] = len(vrefs[e.Leaf])
				for j := 0; j < linesOf(e); j++ {
					vrefs[e.Leaf] = append(vrefs[e.Leaf], ref{wn, j})
				}
				wn++
			}
		}
		content := map[ref][]byte{}
		for name, refs := range vrefs {
			b, err := os.ReadFile(filepath.Join(zzW.dir, name))
			if err != nil {
				continue
			}
			ls := splitLines(b)
			for k, r := range refs {
				if prefix[name]+k < len(ls) {
					content[r] = ls[prefix[name]+k]
				}
			}
		}
		lineFor := func(r ref) []byte {
			if c, ok := content[r]; ok {
				return c
			}
			// a write whose file did not survive (a temp file removed later): the command writes
			// the same events in the same order to whatever file it rewrites
			k := perFileOrdinal[r.w] + r.j
			if k < len(written) {
				return written[k]
			}
			return nil
		}
		// pass 2: the run up to the cut
		files := map[string][]byte{}
		for name, c := range zzFS.snapAll {
			files[name] = []byte(c)
		}
		_ = logLeaf
		wn = 0
		for _, e := range mine {
			if e.I > die || (e.I == die && !(e.Kind == "write" && (torn || tornAll))) {
				break
			}
			switch e.Kind {
			case "create":
				if _, ok := files[e.Leaf]; !ok {
					files[e.Leaf] = []byte{}
				}
			case "truncate":
				files[e.Leaf] = []byte{}
			case "rename":
				if c, ok := files[e.SrcLeaf]; ok {
					files[e.Leaf] = c
					delete(files, e.SrcLeaf)
				}
			case "remove":
				delete(files, e.Leaf)
			case "write":
				n := linesOf(e)
				for j := 0; j < n; j++ {
					ln := lineFor(ref{wn, j})
					if e.I == die && torn {
						k, _ := strconv.Atoi(s.Values["world.tornlines!"+strconv.Itoa(e.I)])
						if n == 1 || j == k {
							ln = ln[:len(ln)/2]
						} else if j > k {
							ln = nil
						}
					} else if e.I == die && tornAll && j == n-1 && len(ln) > 0 {
						ln = ln[:len(ln)-1]
					}
					files[e.Leaf] = append(files[e.Leaf], ln...)
				}
				wn++
			}
		}
		ents, _ := os.ReadDir(zzW.dir)
		for _, en := range ents {
			if _, keep := files[en.Name()]; !keep && en.Name() != "lock" {
				os.Remove(filepath.Join(zzW.dir, en.Name()))
			}
		}
		for name, c := range files {
			if name == "lock" {
				continue
			}
			os.WriteFile(filepath.Join(zzW.dir, name), c, 0644)
		}
		return false
	}
	for _, e := range mine {
		// an unlink of the log that happened before the cut, with the rename after it
		if e.Kind == "remove" && !isTmp(e) && e.I < die && !renamed {
			os.Remove(zzLogPath())
			return false
		}
	}
	if renamed {
		return false // the commit point was passed: the completed state stands
	}
	keep := func(lines [][]byte, writes []zzEffect) []byte {
		var out []byte
		for j, e := range writes {
			if j >= len(lines) {
				break
			}
			switch {
			case e.I < die:
				out = append(out, lines[j]...)
			case e.I == die && torn:
				out = append(out, lines[j][:len(lines[j])/2]...)
			case e.I == die && tornAll:
				out = append(out, lines[j][:len(lines[j])-1]...)
			}
		}
		return out
	}
	if hasRename {
		// rewrite through the temp file, killed before the rename: the log is untouched, the temp
		// file holds what had been written
		var tw []zzEffect
		created := false
		for _, e := range mine {
			if isTmp(e) && e.Kind == "write" {
				tw = append(tw, e)
			}
			if isTmp(e) && (e.Kind == "create" || e.Kind == "truncate") && e.I < die {
				created = true
			}
		}
		os.WriteFile(zzLogPath(), zzFS.snapLog, 0644)
		// the completed run renamed the temp file away: its content is the final log
		src := finalLog
		if tmpErr == nil {
			src = finalTmp
		}
		if created {
			os.WriteFile(zzLogPath()+".tmp", keep(splitLines(src), tw), 0644)
		} else if zzFS.tmpExist {
			os.WriteFile(zzLogPath()+".tmp", zzFS.snapTmp, 0644)
		} else {
			os.Remove(zzLogPath() + ".tmp")
		}
		return false
	}
	// plain appends to the log
	var lw []zzEffect
	for _, e := range mine {
		if !isTmp(e) && e.Kind == "write" {
			lw = append(lw, e)
		}
	}
	appended := finalLog[len(zzFS.snapLog):]
	if lines := splitLines(appended); len(lw) == 1 && len(lines) > 1 {
		// one write(2) carrying several lines
		var out []byte
		e := lw[0]
		switch {
		case e.I < die:
			out = appended
		case e.I == die && torn:
			k, _ := strconv.Atoi(s.Values["world.tornlines!"+strconv.Itoa(e.I)])
			for j, ln := range lines {
				if j < k {
					out = append(out, ln...)
				} else if j == k {
					out = append(out, ln[:len(ln)/2]...)
				}
			}
		case e.I == die && tornAll:
			out = appended[:len(appended)-1]
		}
		os.WriteFile(zzLogPath(), append(append([]byte(nil), zzFS.snapLog...), out...), 0644)
		return false
	}
	os.WriteFile(zzLogPath(), append(append([]byte(nil), zzFS.snapLog...), keep(splitLines(appended), lw)...), 0644)
	return false
}

// zzParseErrInfo extracts "<path>:<line>:" from a located parse error.
func zzParseErrInfo(err error) (string, int, bool) {
	if err == nil {
		return "", 0, false
	}
	msg := err.Error()
	i := strings.Index(msg, ": ")
	if i < 0 {
		return "", 0, false
	}
	head := msg[:i]
	j := strings.LastIndex(head, ":")
	if j < 0 {
		return "", 0, false
	}
	n, e := strconv.Atoi(head[j+1:])
	if e != nil {
		return "", 0, false
	}
	return head[:j], n, true
}

func zzLogShape(path string) (bool, bool, int) {
	data, err := os.ReadFile(path)
	if err != nil {
		return false, true, 0
	}
	n := strings.Count(string(data), "\n")
	complete := len(data) == 0 || data[len(data)-1] == '\n'
	if !complete {
		n++
	}
	return true, complete, n
}

// zzLockDiscipline cannot be observed natively: its obligations are structural (labels with
// "/struct:"), decided from constants and control flow of the real code, and are reported
// without a native replay.
func zzLockDiscipline() (bool, bool, bool, bool) { return true, true, true, true }

func zzLockFDOwned() bool { return true }

// zzFirstBadLine natively: the same specification evaluated on the real file bytes.
func zzFirstBadLine() (bool, int) {
	data, err := os.ReadFile(zzLogPath())
	if err != nil {
		return false, 0
	}
	endsNL := len(data) > 0 && data[len(data)-1] == '\n'
	lines := strings.Split(string(data), "\n")
	if endsNL {
		lines = lines[:len(lines)-1]
	}
	for i, l := range lines {
		t := strings.TrimSpace(l)
		if t == "" {
			continue
		}
		var ev Event
		if json.Unmarshal([]byte(t), &ev) != nil {
			if i < len(lines)-1 || endsNL {
				return true, i + 1
			}
		}
	}
	return false, 0
}

// zzStoreEffects natively: 0 when the log and its temp file are byte-identical to what they were
// when the process began.
func zzStoreEffects() int {
	now, _ := os.ReadFile(zzLogPath())
	tmp, err := os.ReadFile(zzLogPath() + ".tmp")
	if string(now) != string(zzFS.snapLog) || (err == nil) != zzFS.tmpExist || string(tmp) != string(zzFS.snapTmp) {
		return 1
	}
	return 0
}

// zzHistoryPreserved natively: the log as it was when the process began is a prefix of the log now
// (for rewriting commands: its lines are the first lines of the new file).
func zzHistoryPreserved() bool {
	now, _ := os.ReadFile(zzLogPath())
	return strings.HasPrefix(string(now), string(zzFS.snapLog))
}

// zzFileEffects natively: 0 when the file is byte-identical (or as absent) as when the process began.
func zzFileEffects(path string) int {
	was, had := zzFS.snapAll[filepath.Base(path)]
	now, err := os.ReadFile(path)
	if had != (err == nil) || was != string(now) {
		return 1
	}
	return 0
}

// zzFileExisted natively: the file was there when the scenario's world was built.
func zzFileExisted(path string) bool {
	return zzFS.initial[filepath.Base(path)]
}

// zzReaderInstants: symbolically, the reader's path-based stats may describe an earlier instant of
// the concurrent writer than its later open; natively the reader simply runs after the cut.
func zzReaderInstants() {}

// zzLockFileStable cannot be observed natively (structural obligation).
func zzLockFileStable() bool { return true }
