package ergo

// C19 (structure): the rows of the human list are a complete, non-duplicating picture of the
// store. The row set is the node tree buildListRoots hands to the renderer (one row per node);
// byte-level layout of a row (width, truncation, UTF-8) is outside this unit.

// CUT: the order of siblings (topological sort) is not part of these claims.
func zzTopoIdentityCut(tasks []*Task, graph *Graph) []*Task { return tasks }

func zzActive(s string) bool { return s == "todo" || s == "doing" || s == "blocked" || s == "error" }

func zzC19Rows(mode int, spec string) {
	g, _ := zzC07Store(spec)
	zzAssumeI234(g)
	showAll, readyOnly := mode == 1, mode == 2
	roots := buildListRoots(g, showAll, readyOnly, "")
	for _, t := range g.Tasks {
		n := 0
		for _, r := range roots {
			if r.task == t {
				n++
				zzAssert(t.IsEpic || t.EpicID == "", "C19/rows: only epics and tasks without an epic are root rows")
			}
			for _, c := range r.children {
				if c.task == t {
					zzReach("child-row")
					n++
					zzAssert(r.task != nil && r.task.IsEpic && !t.IsEpic && t.EpicID == r.task.ID, "C19/rows: a child row sits under its own epic")
				}
				zzAssert(len(c.children) == 0, "C19/rows: the tree is two levels deep")
			}
		}
		zzAssert(n <= 1, "C19/rows: no item appears in two rows")
		switch mode {
		case 0:
			if !t.IsEpic && zzActive(t.State) {
				zzAssert(n == 1, "C19/rows: the default view shows every active task exactly once")
			}
			if !t.IsEpic && t.State == "canceled" {
				zzAssert(n == 0, "C19/rows: the default view hides canceled tasks")
			}
		case 1:
			zzAssert(n == 1, "C19/rows: with --all every live item appears in exactly one row")
		case 2:
			if !t.IsEpic {
				zzAssert((n == 1) == isReady(t, g), "C19/rows: --ready shows exactly the ready tasks")
			}
		}
	}
	zzReach("end")
}

func zzC19_RowsDefault_N3() { zzC19Rows(0, "3;Results=0;RDeps=0;Tombstones=0;constkeys=Tasks,Meta,Deps") }
func zzC19_RowsAll_N3()     { zzC19Rows(1, "3;Results=0;RDeps=0;Tombstones=0;constkeys=Tasks,Meta,Deps") }
func zzC19_RowsReady_N3()   { zzC19Rows(2, "3;Results=0;RDeps=0;Tombstones=0;constkeys=Tasks,Meta,Deps") }

// Summary counts: the numbers the summary line is built from equal the number of tasks per bucket
// in the scope the view uses (all tasks for --all, active tasks for the default view, ready tasks
// for --ready).
func zzC19_Summary_N3() {
	g, _ := zzC07Store("3;Results=0;RDeps=0;Tombstones=0;constkeys=Tasks,Meta,Deps")
	zzAssumeI234(g)
	all := collectNonEpicTasks(g)
	active := filterActiveTasks(all)
	ready := filterReadyTasks(all, g)
	sAll := computeStatsForTasks(all, g)
	sAct := computeStatsForTasks(active, g)
	sRdy := computeStatsForTasks(ready, g)
	var nReady, nDoing, nBlocked, nErr, nDone, nCanc, nTasks int
	for _, t := range g.Tasks {
		if t.IsEpic {
			continue
		}
		nTasks++
		switch {
		case t.State == "done":
			nDone++
		case t.State == "canceled":
			nCanc++
		case t.State == "error":
			nErr++
		case t.State == "doing":
			nDoing++
		case t.State == "todo" && isReady(t, g):
			nReady++
		default:
			nBlocked++
		}
	}
	zzAssert(sAll.total == nTasks && sAll.ready == nReady && sAll.inProgress == nDoing && sAll.blocked == nBlocked && sAll.errors == nErr && sAll.done == nDone && sAll.canceled == nCanc,
		"C19/summary: --all counts equal the tasks per bucket")
	zzAssert(sAct.total == nTasks-nDone-nCanc && sAct.ready == nReady && sAct.inProgress == nDoing && sAct.blocked == nBlocked && sAct.errors == nErr && sAct.done == 0 && sAct.canceled == 0,
		"C19/summary: default-view counts equal the active tasks per bucket")
	zzAssert(sRdy.total == nReady && sRdy.ready == nReady && sRdy.inProgress == 0 && sRdy.blocked == 0 && sRdy.errors == 0,
		"C19/summary: --ready counts equal the ready tasks")
	zzReach("end")
}
