package ergo

import "unicode/utf8"

// C19 (structure): the rows of the human list are a complete, non-duplicating picture of the
// store. The row set is the node tree buildListRoots hands to the renderer (one row per node);
// byte-level layout of a row (width, truncation, UTF-8) is outside this unit.

// CUT: the order of siblings (topological sort) is not part of these claims.
func zzTopoIdentityCut(tasks []*Task, graph *Graph) []*Task { return tasks }

func zzActive(s string) bool { return s == "todo" || s == "doing" || s == "blocked" || s == "error" }

func zzC19Rows(mode int, spec string) {
	g, _ := zzC07Store(spec)
	zzAssumeI234(g)
	showAll, readyOnly := mode == 1, mode == 2
	roots := buildListRoots(g, showAll, readyOnly, "")
	for _, t := range g.Tasks {
		n := 0
		for _, r := range roots {
			if r.task == t {
				n++
				zzAssert(t.IsEpic || t.EpicID == "", "C19/rows: only epics and tasks without an epic are root rows")
			}
			for _, c := range r.children {
				if c.task == t {
					zzReach("child-row")
					n++
					zzAssert(r.task != nil && r.task.IsEpic && !t.IsEpic && t.EpicID == r.task.ID, "C19/rows: a child row sits under its own epic")
				}
				zzAssert(len(c.children) == 0, "C19/rows: the tree is two levels deep")
			}
		}
		zzAssert(n <= 1, "C19/rows: no item appears in two rows")
		switch mode {
		case 0:
			if !t.IsEpic && zzActive(t.State) {
				zzAssert(n == 1, "C19/rows: the default view shows every active task exactly once")
			}
			if !t.IsEpic && t.State == "canceled" {
				zzAssert(n == 0, "C19/rows: the default view hides canceled tasks")
			}
		case 1:
			zzAssert(n == 1, "C19/rows: with --all every live item appears in exactly one row")
		case 2:
			if !t.IsEpic {
				zzAssert((n == 1) == isReady(t, g), "C19/rows: --ready shows exactly the ready tasks")
			}
		}
	}
	zzReach("end")
}

func zzC19_RowsDefault_N3() { zzC19Rows(0, "3;Results=0;RDeps=0;Tombstones=0;constkeys=Tasks,Meta,Deps") }
func zzC19_RowsAll_N3()     { zzC19Rows(1, "3;Results=0;RDeps=0;Tombstones=0;constkeys=Tasks,Meta,Deps") }
func zzC19_RowsReady_N3()   { zzC19Rows(2, "3;Results=0;RDeps=0;Tombstones=0;constkeys=Tasks,Meta,Deps") }

// Summary counts: the numbers the summary line is built from equal the number of tasks per bucket
// in the scope the view uses (all tasks for --all, active tasks for the default view, ready tasks
// for --ready).
func zzC19_Summary_N3() {
	g, _ := zzC07Store("3;Results=0;RDeps=0;Tombstones=0;constkeys=Tasks,Meta,Deps")
	zzAssumeI234(g)
	all := collectNonEpicTasks(g)
	active := filterActiveTasks(all)
	ready := filterReadyTasks(all, g)
	sAll := computeStatsForTasks(all, g)
	sAct := computeStatsForTasks(active, g)
	sRdy := computeStatsForTasks(ready, g)
	var nReady, nDoing, nBlocked, nErr, nDone, nCanc, nTasks int
	for _, t := range g.Tasks {
		if t.IsEpic {
			continue
		}
		nTasks++
		switch {
		case t.State == "done":
			nDone++
		case t.State == "canceled":
			nCanc++
		case t.State == "error":
			nErr++
		case t.State == "doing":
			nDoing++
		case t.State == "todo" && isReady(t, g):
			nReady++
		default:
			nBlocked++
		}
	}
	zzAssert(sAll.total == nTasks && sAll.ready == nReady && sAll.inProgress == nDoing && sAll.blocked == nBlocked && sAll.errors == nErr && sAll.done == nDone && sAll.canceled == nCanc,
		"C19/summary: --all counts equal the tasks per bucket")
	zzAssert(sAct.total == nTasks-nDone-nCanc && sAct.ready == nReady && sAct.inProgress == nDoing && sAct.blocked == nBlocked && sAct.errors == nErr && sAct.done == 0 && sAct.canceled == 0,
		"C19/summary: default-view counts equal the active tasks per bucket")
	zzAssert(sRdy.total == nReady && sRdy.ready == nReady && sRdy.inProgress == 0 && sRdy.blocked == 0 && sRdy.errors == 0,
		"C19/summary: --ready counts equal the ready tasks")
	zzReach("end")
}

// ---- row layout on display widths (strings abstracted to their widths) ----

// Summaries used by the layout unit (natively the real functions run):
// visibleLen -> the width term; stripANSICodes -> uninterpreted; truncateToWidth -> CUT with the
// contract: "" for w <= 0, the ellipsis for w = 1, s itself when it fits, otherwise a string of w
// or w-1 columns.
func zzVisLenCut(s string) int   { return zzWidth(s) }
func zzStripCut(s string) string { return zzStrip(s) }
func zzTruncCut(s string, maxWidth int) string {
	if maxWidth <= 0 {
		return ""
	}
	if maxWidth <= 1 {
		return "…"
	}
	if zzWidth(s) <= maxWidth {
		return s
	}
	// cut to maxWidth-1 columns (one less if a wide character does not fit) plus the ellipsis
	r := zzTruncUF(s, maxWidth)
	zzAssume(zzWidth(r) <= maxWidth && zzWidth(r) >= maxWidth-1)
	return r
}

// One row of the tree for ANY prefix / connector / icon / id / title / blocker text widths and any
// terminal width 0..400: the renderer never panics (strings.Repeat with a negative count, index,
// nil), and the id never starts left of its column.
func zzC19_TreeLine() {
	zzWidthMode()
	task := &Task{ID: zzString("id"), IsEpic: zzBool("isEpic"), State: zzString("state")}
	tw := zzInt("termWidth")
	zzAssume(tw >= 0 && tw <= 400)
	zzAssume(zzWidth(task.ID) == len(task.ID)) // ids are ASCII
	// stated bound: every text is at most 1000 columns wide (also keeps replayed strings small)
	zzAssume(zzWidth(task.ID) <= 1000 && zzWidth(zzString("prefix")) <= 1000 && zzWidth(zzString("connector")) <= 1000 && zzWidth(zzString("icon")) <= 1000 && zzWidth(zzString("title")) <= 1000 && zzWidth(zzString("blocker")) <= 1000)
	prefix, connector, icon := zzString("prefix"), zzString("connector"), zzString("icon")
	line := formatTreeLine(prefix, connector, zzBool("showConnector"), icon, task.ID, zzString("title"), nil, zzString("blocker"), task, zzBool("ready"), zzBool("color"), tw)
	zzAssert(zzWidth(line) >= tw-idRightMargin || tw < idRightMargin+idMinGap+len(task.ID), "C19/layout: the id never ends left of its right-hand column")
	if tw >= 40 && len(task.ID) <= 8 && zzWidth(prefix) <= 4 && zzWidth(connector) <= 4 && zzWidth(icon) <= 4 {
		// the fixed part (tree glyphs + icon) leaves room: whatever the title and the blocker text
		// are, they are cut to fit, and the row ends with the id exactly at the right margin
		zzAssert(zzWidth(line) == tw-idRightMargin, "C19/layout: with room for the fixed part, the row fits the terminal and the id ends exactly in its right-hand column")
		zzReach("roomy")
	}
	zzReach("end")
}

// ---- byte level: blocker names shortened by abbreviate stay valid UTF-8 ----

// zzUTF8Valid: RFC 3629 well-formedness written as a byte state machine (an independent copy of
// what unicode/utf8.ValidString decides; the native replay also asks the library).
func zzUTF8Valid(s string) bool {
	need := 0
	lo, hi := byte(0x80), byte(0xBF)
	ok := true
	for i := 0; i < len(s); i++ {
		c := s[i]
		if need == 0 {
			switch {
			case c < 0x80:
			case c >= 0xC2 && c <= 0xDF:
				need, lo, hi = 1, 0x80, 0xBF
			case c == 0xE0:
				need, lo, hi = 2, 0xA0, 0xBF
			case (c >= 0xE1 && c <= 0xEC) || c == 0xEE || c == 0xEF:
				need, lo, hi = 2, 0x80, 0xBF
			case c == 0xED:
				need, lo, hi = 2, 0x80, 0x9F
			case c == 0xF0:
				need, lo, hi = 3, 0x90, 0xBF
			case c >= 0xF1 && c <= 0xF3:
				need, lo, hi = 3, 0x80, 0xBF
			case c == 0xF4:
				need, lo, hi = 3, 0x80, 0x8F
			default:
				ok = false
			}
		} else {
			if c < lo || c > hi {
				ok = false
			}
			need--
			lo, hi = 0x80, 0xBF
		}
	}
	return ok && need == 0
}

func zzC19_AbbreviateUTF8() {
	s := zzBytes("title", 6)
	n := zzInt("maxLen")
	zzAssume(n >= 2 && n <= 5)
	zzAssume(zzUTF8Valid(s))
	r := abbreviate(s, n)
	if len(s) <= n {
		zzAssert(r == s, "C19/utf8: a text that fits is shown unaltered")
	} else {
		zzAssert(zzUTF8Valid(r) && utf8.ValidString(r), "C19/utf8[abbreviate cuts by bytes]: a shortened blocker name is valid UTF-8")
	}
	zzReach("end")
}
