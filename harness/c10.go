package ergo

import "strings"

// Command-level harnesses (one process, no crash): the real RunX functions over the symbolic
// store. Used by C10 (a failing command changes nothing), C16 (--json discipline and truth),
// C06 (state machine through every entry point) and C17 (text data flow).

// ---------------------------------------------------------------- set (three input modes)
func zzCmd_Set_JSON()      { zzCmdSet(0) }
func zzCmd_Set_Flags()     { zzCmdSet(1) }
func zzCmd_Set_BodyStdin() { zzCmdSet(2) }

func zzCmdSet(mode int) {
	g := zzCmdStore()
	root := zzWorldInit(g)
	zzPinRand()
	opts := zzCmdOpts(root)
	zzCmdMode(&opts, mode)
	in := zzTaskInput()
	if mode == 2 {
		zzStdinText(zzString("stdin.text"))
	} else {
		zzStdinTask(in, zzBool("stdin.parseError"))
	}
	id := zzString("id")
	pre := g.Tasks[id]
	var preCopy Task
	if pre != nil {
		preCopy = *pre
	}
	err := RunSet(id, opts)
	written := zzWritten()
	zzAfter("set", err, opts.JSON)
	g2, perr := zzPost()
	zzAssert(perr == nil, "C10/set: store replays after the command")
	if perr != nil {
		return
	}
	post := g2.Tasks[id]
	if err != nil {
		hasResult := opts.ResultPathFlag != "" || opts.ResultSummaryFlag != "" || in.ResultPath != nil || in.ResultSummary != nil
		if hasResult {
			zzAssert(len(written) == 0, "C10/set[result + other fields]: a failing set writes nothing")
		} else {
			zzAssert(len(written) == 0, "C10/set: a failing set writes nothing")
		}
		return
	}
	zzAssert(pre != nil, "C10/set: only existing ids can be updated")
	if opts.JSON && post != nil {
		zzAssert(zzOutStr("id") == id && zzOutStr("state") == post.State && zzOutStr("claimed_by") == post.ClaimedBy, "C16/set: reported state and claimant are what a read shows")
	}
	if post != nil {
		switch mode {
		case 0:
			if in.Title != nil {
				zzAssert(post.Title == strings.TrimSpace(*in.Title), "C17/set[json]: title is the supplied text, trimmed (documented for set)")
			} else {
				zzAssert(post.Title == preCopy.Title, "C17/set[json]: title untouched when not supplied")
			}
			if in.Body != nil {
				zzAssert(post.Body == *in.Body, "C17/set[json]: body stored exactly as supplied")
			} else {
				zzAssert(post.Body == preCopy.Body, "C17/set[json]: body untouched when not supplied")
			}
		case 1:
			if strings.TrimSpace(opts.TitleFlag) != "" {
				zzAssert(post.Title == strings.TrimSpace(opts.TitleFlag), "C17/set[flags]: title trimmed (documented)")
			}
			if opts.BodyFlag != "" {
				zzAssert(post.Body == opts.BodyFlag, "C17/set[flags]: body exact")
			}
		case 2:
			zzAssert(post.Body == zzString("stdin.text"), "C17/set[body-stdin]: body is stdin verbatim")
		}
	}
	zzAssert(zzItemOK(post), "C06/set: post-state obeys six states and the claim rule (epics stateless)")
	if pre != nil && post != nil && !pre.IsEpic {
		zzAssert(zzDocTransition(preCopy.State, post.State), "C06/set: state change is in the documented table")
	}
	if pre != nil && pre.IsEpic && post != nil {
		zzAssert(post.State == preCopy.State && post.ClaimedBy == "", "C06/set: epics never acquire a state change or a claimant")
	}
	// untouched items
	for k, t := range g.Tasks {
		if k != id {
			zzAssert(zzUnchangedItem(t, g2.Tasks[k]), "C10/set: other items are not altered")
		}
	}
}

// ---------------------------------------------------------------- claim <id>
func zzCmd_Claim() {
	g := zzCmdStore()
	root := zzWorldInit(g)
	opts := zzCmdOpts(root)
	id := zzString("id")
	pre := g.Tasks[id]
	var preCopy Task
	if pre != nil {
		preCopy = *pre
	}
	err := RunClaim(id, opts)
	written := zzWritten()
	zzAfter("claim", err, opts.JSON)
	g2, perr := zzPost()
	zzAssert(perr == nil, "C10/claim: store replays after the command")
	if perr != nil {
		return
	}
	if err != nil {
		zzAssert(len(written) == 0, "C10/claim: a failing claim writes nothing")
		return
	}
	post := g2.Tasks[id]
	zzAssert(pre != nil && !pre.IsEpic, "C06/claim: only live tasks can be claimed")
	if opts.JSON && post != nil {
		zzAssert(zzOutStr("id") == id && zzOutStr("state") == post.State && zzOutStr("agent_id") == post.ClaimedBy, "C16/claim: reported id, state and agent are what a read shows")
	}
	zzAssert(post != nil && post.State == "doing" && post.ClaimedBy == opts.AgentID && opts.AgentID != "", "C06/claim: task is doing and claimed by the requesting agent")
	if pre != nil {
		zzAssert(zzDocTransition(preCopy.State, "doing"), "C06/claim: claim <id> obeys the table's ->doing row")
	}
}

// ---------------------------------------------------------------- new task (three input modes)
func zzCmd_NewTask_JSON()      { zzCmdNewTask(0) }
func zzCmd_NewTask_Flags()     { zzCmdNewTask(1) }
func zzCmd_NewTask_BodyStdin() { zzCmdNewTask(2) }

func zzCmdNewTask(mode int) {
	g := zzCmdStore()
	root := zzWorldInit(g)
	zzPinRand()
	opts := zzCmdOpts(root)
	zzCmdMode(&opts, mode)
	in := zzTaskInput()
	if mode == 2 {
		zzStdinText(zzString("stdin.text"))
	} else {
		zzStdinTask(in, zzBool("stdin.parseError"))
	}
	err := RunNewTask(opts)
	written := zzWritten()
	zzAfter("new-task", err, opts.JSON)
	g2, perr := zzPost()
	zzAssert(perr == nil, "C10/new-task: store replays after the command")
	if perr != nil {
		return
	}
	if err != nil {
		followUp := opts.StateFlag != "" || opts.ClaimFlag != "" || opts.ResultPathFlag != "" || opts.ResultSummaryFlag != "" ||
			in.State != nil || in.Claim != nil || in.ResultPath != nil || in.ResultSummary != nil
		if followUp {
			zzAssert(len(written) == 0, "C10/new-task[create then update]: a failing new creates nothing")
		} else {
			zzAssert(len(written) == 0, "C10/new-task: a failing new creates nothing")
		}
		return
	}
	// exactly one new live item, obeying the invariants; nothing else altered
	n := 0
	for k, t := range g2.Tasks {
		if _, old := g.Tasks[k]; !old {
			n++
			switch mode {
			case 0:
				zzAssert(t.Title == in.GetTitle() && t.Body == in.GetBody(), "C17/new-task[json]: title and body are stored exactly as supplied")
			case 1:
				zzAssert(t.Title == strings.TrimSpace(opts.TitleFlag) && t.Body == opts.BodyFlag, "C17/new-task[flags]: title trimmed (documented), body exact")
			case 2:
				zzAssert(t.Title == strings.TrimSpace(opts.TitleFlag) && t.Body == zzString("stdin.text"), "C17/new-task[body-stdin]: title trimmed (documented), body is stdin verbatim")
			}
			zzAssert(!t.IsEpic && zzItemOK(t), "C06/new-task: created task obeys six states and the claim rule")
			zzAssert(t.State == "todo" || zzDocTransition("todo", t.State), "C06/new-task: state given at creation is reachable from todo by the table")
		}
	}
	zzAssert(n == 1, "C10/new-task: a successful new creates exactly one item")
	if opts.JSON {
		rid := zzOutStr("id")
		rt := g2.Tasks[rid]
		_, wasThere := g.Tasks[rid]
		zzAssert(rt != nil && !wasThere, "C16/new-task: the reported id is a fresh, live item")
		if rt != nil {
			zzAssert(zzOutStr("title") == rt.Title && zzOutStr("epic_id") == rt.EpicID, "C16/new-task: reported title and epic are what a read shows")
			followUp := opts.StateFlag != "" || opts.ClaimFlag != "" || in.State != nil || in.Claim != nil
			if followUp {
				zzAssert(zzOutStr("state") == rt.State, "C16/new-task[reply built before the follow-up update]: reported state is what a read shows")
			} else {
				zzAssert(zzOutStr("state") == rt.State, "C16/new-task: reported state is what a read shows")
			}
		}
	}
	for k, t := range g.Tasks {
		zzAssert(zzUnchangedItem(t, g2.Tasks[k]), "C10/new-task: existing items are not altered")
	}
	zzAssert(zzI4Holds(g2), "C14/new-task: epic references name live epics afterwards")
}

// ---------------------------------------------------------------- new epic
func zzCmd_NewEpic_JSON()      { zzCmdNewEpic(0) }
func zzCmd_NewEpic_Flags()     { zzCmdNewEpic(1) }
func zzCmd_NewEpic_BodyStdin() { zzCmdNewEpic(2) }

func zzCmdNewEpic(mode int) {
	g := zzCmdStore()
	root := zzWorldInit(g)
	zzPinRand()
	opts := zzCmdOpts(root)
	zzCmdMode(&opts, mode)
	in := zzTaskInput()
	if mode == 2 {
		zzStdinText(zzString("stdin.text"))
	} else {
		zzStdinTask(in, zzBool("stdin.parseError"))
	}
	err := RunNewEpic(opts)
	written := zzWritten()
	zzAfter("new-epic", err, opts.JSON)
	g2, perr := zzPost()
	zzAssert(perr == nil, "C10/new-epic: store replays after the command")
	if perr != nil {
		return
	}
	if err != nil {
		zzAssert(len(written) == 0, "C10/new-epic: a failing new creates nothing")
		return
	}
	n := 0
	for k, t := range g2.Tasks {
		if _, old := g.Tasks[k]; !old {
			n++
			switch mode {
			case 0:
				zzAssert(t.Title == in.GetTitle() && t.Body == in.GetBody(), "C17/new-epic[json]: title and body are stored exactly as supplied")
			case 1:
				zzAssert(t.Title == strings.TrimSpace(opts.TitleFlag) && t.Body == opts.BodyFlag, "C17/new-epic[flags]: title trimmed (documented), body exact")
			case 2:
				zzAssert(t.Title == strings.TrimSpace(opts.TitleFlag) && t.Body == zzString("stdin.text"), "C17/new-epic[body-stdin]: title trimmed (documented), body is stdin verbatim")
			}
			zzAssert(t.IsEpic && zzItemOK(t), "C06/new-epic: created epic is stateless, unclaimed, top-level")
		}
	}
	zzAssert(n == 1, "C10/new-epic: a successful new creates exactly one item")
}

// ---------------------------------------------------------------- sequence A B [C]
func zzCmd_Sequence() {
	g := zzCmdStore()
	root := zzWorldInit(g)
	opts := zzCmdOpts(root)
	var args []string
	zzHavoc("args", &args, "3")
	err := RunSequence(args, opts)
	written := zzWritten()
	zzAfter("sequence", err, opts.JSON)
	if err != nil {
		if len(args) > 2 && args[0] != "rm" {
			zzAssert(len(written) == 0, "C10/sequence[several edges]: a failing sequence adds none of its edges")
		} else {
			zzAssert(len(written) == 0, "C10/sequence: a failing sequence writes nothing")
		}
		return
	}
	if !opts.JSON {
		return
	}
	g2, perr := zzPost()
	if perr != nil {
		return
	}
	link := zzOutStr("action") == "link"
	edges := zzOutEdges()
	zzAssert(len(edges) > 0, "C16/sequence: a successful sequence reports its edges")
	for _, e := range edges {
		zzReach("reply-edge")
		zzAssert(zzEdge(g2, e.FromID, e.ToID) == link, "C16/sequence: every reported edge is what a following read shows (present after link, absent after rm)")
	}
}

// ---------------------------------------------------------------- claim (oldest ready)
func zzCmd_ClaimOldest() {
	g := zzCmdStore()
	root := zzWorldInit(g)
	opts := zzCmdOpts(root)
	epic := zzString("epicFilter")
	err := RunClaimOldestReady(epic, opts)
	written := zzWritten()
	zzAfter("claim-oldest", err, opts.JSON)
	if err != nil {
		zzAssert(len(written) == 0, "C10/claim-oldest: a failing claim writes nothing")
		return
	}
	g2, perr := zzPost()
	zzAssert(perr == nil, "C10/claim-oldest: store replays after the command")
	if perr != nil {
		return
	}
	for k, t := range g.Tasks {
		p := g2.Tasks[k]
		if p != nil && (p.State != t.State || p.ClaimedBy != t.ClaimedBy) {
			zzAssert(!t.IsEpic && zzReadySpec(g, t) && p.State == "doing" && p.ClaimedBy == opts.AgentID && opts.AgentID != "", "C01/claim-oldest: the only item changed was ready and is now doing, claimed by the caller")
			zzAssert(epic == "" || t.EpicID == epic, "C08/claim-oldest: chosen task is in the requested epic")
			for k2, o := range g.Tasks {
				if k2 != k && !o.IsEpic && zzReadySpec(g, o) && (epic == "" || o.EpicID == epic) {
					zzAssert(t.CreatedAt.Before(o.CreatedAt) || (t.CreatedAt.Equal(o.CreatedAt) && k < k2), "C08/claim-oldest: no other ready task in scope is older")
				}
			}
		}
	}
	if len(written) == 0 {
		for _, t := range g.Tasks {
			zzAssert(t.IsEpic || !zzReadySpec(g, t) || (epic != "" && t.EpicID != epic), "C08/claim-oldest: 'no ready tasks' only when the ready set in scope is empty")
		}
	}
}

// ---------------------------------------------------------------- prune / compact
func zzCmd_Prune() {
	g := zzCmdStore()
	root := zzWorldInit(g)
	opts := zzCmdOpts(root)
	confirm := zzBool("confirm")
	err := RunPrune(confirm, opts)
	written := zzWritten()
	zzAfter("prune", err, opts.JSON)
	if err != nil || !confirm {
		zzAssert(len(written) == 0, "C10/prune: a failing prune and a dry run write nothing")
	}
}
