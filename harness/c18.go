package ergo

import (
	"errors"
	"path/filepath"
)

// C18: every command finds the same store, and init never hides data.

// (a) Which log file: for every combination of present/absent plans.jsonl, events.jsonl and lock,
// a command (i) keeps using the log file the store used before it, (ii) never writes the other
// one, (iii) is not refused because the lock file is missing.
func zzC18SameLog(cmd int, cfg string) {
	root := zzFSInit("1;winv=1;clean=1;legacy=1;nolinks=1;Results=0;" + cfg) // nolinks: see zzSortedKeysCut
	opts, dir := zzFSOpts(root)
	p0 := getEventsPath(dir)
	other := filepath.Join(dir, oldEventsFileName)
	if p0 == other {
		other = filepath.Join(dir, plansFileName)
	}
	g0, err0 := loadGraph(dir)
	zzAssume(err0 == nil)
	n0 := zzCountTasks(g0)
	zzProcBegin(false)
	var err error
	delta := 0
	switch cmd {
	case 0:
		_, err = createTask(dir, opts, "", false, "title-a", "body-a")
		delta = 1
		zzAssert(err == nil || errors.Is(err, ErrLockBusy), "C18/lock: a valid command is not refused whatever files the store holds (a missing lock file is recreated on demand)")
	case 1:
		err = RunClaimOldestReady("", opts)
	case 2:
		err = RunCompact(opts)
	case 3:
		_, err = runPrune(dir, opts, true)
	case 4:
		p := zzPlanDoc("1;Tasks=1;After=0")
		zzStdinPiped(true)
		zzStdinPlan(p, false)
		err = RunPlan(nil, opts)
		delta = 2
	case 5:
		err = applySetUpdates(dir, opts, zzString("id"), map[string]string{"title": "new-title"}, opts.AgentID, true)
	case 6: // result attachment: its own locked section and append
		zzTouchUnder(root, zzString("rpath"))
		err = applySetUpdates(dir, opts, zzString("id"), map[string]string{"result.path": zzString("rpath"), "result.summary": zzString("rsummary")}, opts.AgentID, true)
	}
	zzAssume(!errors.Is(err, ErrLockBusy))
	p1 := getEventsPath(dir)
	zzAssert(p1 == p0, "C18/samelog: a command never changes which log file the store uses")
	zzAssert(zzFileEffects(other) == 0, "C18/samelog: the log file that is not in use is never created or written")
	g1, err1 := loadGraph(dir)
	zzAssert(err1 == nil, "C18/samelog: the store stays readable")
	if err1 == nil && err == nil && cmd != 3 {
		zzAssert(zzCountTasks(g1) == n0+delta, "C18/samelog: the next read sees the command's effect (same file for reading and writing)")
	}
	zzReach("end")
}


func zzC18_SameLogNewTask_Neither() { zzC18SameLog(0, "plans=0;old=0") }
func zzC18_SameLogNewTask_Plans() { zzC18SameLog(0, "plans=1;old=0") }
func zzC18_SameLogNewTask_Legacy() { zzC18SameLog(0, "plans=0;old=1") }
func zzC18_SameLogNewTask_Both() { zzC18SameLog(0, "plans=1;old=1") }
func zzC18_SameLogClaim_Neither() { zzC18SameLog(1, "plans=0;old=0") }
func zzC18_SameLogClaim_Plans() { zzC18SameLog(1, "plans=1;old=0") }
func zzC18_SameLogClaim_Legacy() { zzC18SameLog(1, "plans=0;old=1") }
func zzC18_SameLogClaim_Both() { zzC18SameLog(1, "plans=1;old=1") }
func zzC18_SameLogCompact_Neither() { zzC18SameLog(2, "plans=0;old=0") }
func zzC18_SameLogCompact_Plans() { zzC18SameLog(2, "plans=1;old=0") }
func zzC18_SameLogCompact_Legacy() { zzC18SameLog(2, "plans=0;old=1") }
func zzC18_SameLogCompact_Both() { zzC18SameLog(2, "plans=1;old=1") }
func zzC18_SameLogPrune_Neither() { zzC18SameLog(3, "plans=0;old=0") }
func zzC18_SameLogPrune_Plans() { zzC18SameLog(3, "plans=1;old=0") }
func zzC18_SameLogPrune_Legacy() { zzC18SameLog(3, "plans=0;old=1") }
func zzC18_SameLogPrune_Both() { zzC18SameLog(3, "plans=1;old=1") }
func zzC18_SameLogPlan_Neither() { zzC18SameLog(4, "plans=0;old=0") }
func zzC18_SameLogPlan_Plans() { zzC18SameLog(4, "plans=1;old=0") }
func zzC18_SameLogPlan_Legacy() { zzC18SameLog(4, "plans=0;old=1") }
func zzC18_SameLogPlan_Both() { zzC18SameLog(4, "plans=1;old=1") }

func zzC18_SameLogSetTitle_Neither() { zzC18SameLog(5, "plans=0;old=0") }
func zzC18_SameLogSetTitle_Plans() { zzC18SameLog(5, "plans=1;old=0") }
func zzC18_SameLogSetTitle_Legacy() { zzC18SameLog(5, "plans=0;old=1") }
func zzC18_SameLogSetTitle_Both() { zzC18SameLog(5, "plans=1;old=1") }
func zzC18_SameLogSetResult_Neither() { zzC18SameLog(6, "plans=0;old=0") }
func zzC18_SameLogSetResult_Plans() { zzC18SameLog(6, "plans=1;old=0") }
func zzC18_SameLogSetResult_Legacy() { zzC18SameLog(6, "plans=0;old=1") }
func zzC18_SameLogSetResult_Both() { zzC18SameLog(6, "plans=1;old=1") }

// (b) init on ANY existing store (legacy only, plans only, both, neither; lock present or not)
// changes no item and hides none, and is idempotent.
func zzC18_InitIdempotent() {
	root := zzFSInit("2;winv=1;clean=1;legacy=1;Results=0")
	opts, dir := zzFSOpts(root)
	opts.Quiet = true
	p0 := getEventsPath(dir)
	g0, err0 := loadGraph(dir)
	zzAssume(err0 == nil)
	n0 := zzCountTasks(g0)
	zzProcBegin(false)
	err := RunInit([]string{root}, opts)
	zzAssert(err == nil, "C18/init: init on an existing store succeeds")
	p1 := getEventsPath(dir)
	if zzFileExisted(p0) {
		zzAssert(p1 == p0, "C18/init[legacy store]: init never switches an existing store to another (empty) log file")
	}
	g1, err1 := loadGraph(dir)
	zzAssert(err1 == nil, "C18/init: the store is readable after init")
	if err1 == nil {
		if zzFileExisted(p0) {
			zzAssert(zzCountTasks(g1) == n0, "C18/init[legacy store]: init hides no item")
		} else {
			zzAssert(zzCountTasks(g1) == n0, "C18/init: init adds or removes no item")
		}
		for k, t := range g0.Tasks {
			u := g1.Tasks[k]
			zzAssert(u != nil && u.State == t.State && u.Title == t.Title, "C18/init: every item is still there, unchanged")
		}
	}
	zzAssert(zzFileEffects(p0) == 0 || !zzFileExisted(p0), "C18/init: an existing log is not rewritten")
	err = RunInit([]string{root}, opts)
	zzAssert(err == nil && getEventsPath(dir) == p1, "C18/init: init is idempotent")
	zzReach("end")
}

// (c) Discovery: skeleton <root>/x/y, working directory <root>/x, each of the three directories
// may hold a .ergo directory. For every spelling of the start directory the store found is the
// nearest enclosing one of the directory the spelling names.
func zzC18Resolve(startDir string, depth int, label string) {
	zzC18ResolveVia(startDir, depth, label, false)
}

// `where` performs its own discovery: resolveErgoDir(--dir or working directory).
func zzC18ResolveVia(startDir string, depth int, label string, where bool) {
	root := zzTreeRoot()
	dirs := [3]string{root, filepath.Join(root, "x"), filepath.Join(root, "x", "y")}
	start := startDir
	switch startDir { // spellings that need the root
	case "<abs-y>":
		start = dirs[2]
	case "<abs-x>":
		start = dirs[1]
	case "<abs-root>":
		start = dirs[0]
	case "<abs-x-ergo>":
		start = filepath.Join(dirs[1], ".ergo")
	case "<abs-y-dotdot>":
		start = dirs[2] + "/../y"
	case "<abs-y-parent>":
		start = dirs[2] + "/.." // names <root>/x
	case "<abs-y-parent-slash>":
		start = dirs[2] + "/../"
	}
	var got string
	var err error
	if where {
		got, err = resolveErgoDir(start)
	} else {
		got, err = ergoDir(GlobalOptions{StartDir: start})
	}
	want := -1
	for j := depth; j >= 0; j-- {
		if zzTreeHasErgo(j) {
			want = j
			break
		}
	}
	switch want {
	case -1:
		zzAssert(err != nil && errors.Is(err, ErrNoErgoDir), "C18/resolve"+label+": without an enclosing .ergo the command says so")
	case 0:
		zzAssert(err == nil && zzSamePath(got, filepath.Join(dirs[0], ".ergo")), "C18/resolve"+label+": the nearest enclosing .ergo is found")
	case 1:
		zzAssert(err == nil && zzSamePath(got, filepath.Join(dirs[1], ".ergo")), "C18/resolve"+label+": the nearest enclosing .ergo is found")
	case 2:
		zzAssert(err == nil && zzSamePath(got, filepath.Join(dirs[2], ".ergo")), "C18/resolve"+label+": the nearest enclosing .ergo is found")
	}
	zzReach("end")
}

func zzC18_Resolve_Cwd()       { zzC18Resolve("", 1, "") }
func zzC18_Resolve_AbsY()      { zzC18Resolve("<abs-y>", 2, "") }
func zzC18_Resolve_AbsX()      { zzC18Resolve("<abs-x>", 1, "") }
func zzC18_Resolve_AbsRoot()   { zzC18Resolve("<abs-root>", 0, "") }
func zzC18_Resolve_AbsErgo()   { zzC18Resolve("<abs-x-ergo>", 1, "") }
func zzC18_Resolve_AbsDotDot() { zzC18Resolve("<abs-y-dotdot>", 2, "") }
func zzC18_Resolve_AbsParent()      { zzC18Resolve("<abs-y-parent>", 1, "[absolute --dir with ..]") }
func zzC18_Resolve_AbsParentSlash() { zzC18Resolve("<abs-y-parent-slash>", 1, "[absolute --dir with ..]") }
func zzC18_Resolve_RelParentOfY()   { zzC18Resolve("y/..", 1, "[relative --dir]") }
func zzC18_Resolve_RelY()      { zzC18Resolve("y", 2, "[relative --dir]") }
func zzC18_Resolve_RelDot()    { zzC18Resolve(".", 1, "[relative --dir]") }
func zzC18_Resolve_RelDotDot() { zzC18Resolve("..", 0, "[relative --dir]") }
func zzC18_Resolve_RelErgo()   { zzC18Resolve(".ergo", 1, "[relative --dir]") }
func zzC18_Resolve_RelYSlash() { zzC18Resolve("./y/", 2, "[relative --dir]") }

func zzC18_ResolveWhere_RelY()      { zzC18ResolveVia("y", 2, "[where, relative --dir]", true) }
func zzC18_ResolveWhere_RelDotDot() { zzC18ResolveVia("..", 0, "[where, relative --dir]", true) }
func zzC18_ResolveWhere_AbsY()      { zzC18ResolveVia("<abs-y>", 2, "[where]", true) }
