package ergo

import (
	"errors"
	"strings"
)

// C12: state is a total function of the log; reads are pure; history only grows.

// (2) located parse errors: for ANY file content (lines blank / unparsable / event, last line
// possibly incomplete) readEvents fails exactly when some line that counts is unparsable, and the
// error names the file and the 1-based number of the first such line.
func zzC12_ParseErrors()   { zzC12ParseErrors("3;logexists=1;Results=0") }
func zzC12_ParseErrors_5() { zzC12ParseErrors("5;logexists=1;Results=0") }

func zzC12ParseErrors(spec string) {
	root := zzFSInit(spec)
	_, dir := zzFSOpts(root)
	path := getEventsPath(dir)
	events, err := readEvents(path)
	bad, badLine := zzFirstBadLine()
	if bad {
		zzAssert(err != nil, "C12/parse: a complete non-blank line that is not valid JSON is reported")
		p, line, ok := zzParseErrInfo(err)
		zzAssert(ok && p == path && line == badLine, "C12/parse: the error names the file and the 1-based number of the first bad line")
		zzReach("bad")
	} else {
		zzAssert(err == nil, "C12/parse: content without a bad line is read without error")
		_ = events
		zzReach("good")
	}
}

// (4) read purity: list / show (JSON mode) and the prune dry run perform no create / truncate /
// write / rename on the log or its temp file (a missing lock file may be created).
func zzC12ReadPure(cmd int) {
	root := zzFSInit("1;winv=1;clean=1;Results=0")
	opts, _ := zzFSOpts(root)
	opts.JSON = true
	zzProcBegin(false)
	switch cmd {
	case 0:
		RunList(ListOptions{EpicID: zzString("epic"), ReadyOnly: zzBool("ready"), ShowEpics: zzBool("epics"), ShowAll: zzBool("all")}, opts)
	case 1:
		RunShow(zzString("id"), false, opts)
	case 2:
		RunPrune(false, opts)
	}
	zzAssert(zzStoreEffects() == 0, "C12/pure: a read-only command never creates, truncates, writes or renames the log")
	zzReach("end")
}

func zzC12_PureList()  { zzC12ReadPure(0) }
func zzC12_PureShow()  { zzC12ReadPure(1) }
func zzC12_PurePrune() { zzC12ReadPure(2) }

// (5) history only grows: after an appending command or a plan, every earlier event is still in
// the log, in order, with unchanged content, followed by the new ones.
func zzC12HistoryGrows(cmd int) {
	root := zzFSInit("2;winv=1;clean=1;logexists=1;Results=0")
	opts, dir := zzFSOpts(root)
	_, err0 := loadGraph(dir)
	zzAssume(err0 == nil)
	zzProcBegin(false)
	var err error
	switch cmd {
	case 0:
		_, err = createTask(dir, opts, "", false, "title-a", "body-a")
	case 1:
		err = RunClaimOldestReady("", opts)
	case 2:
		p := zzPlanDoc("1;Tasks=1;After=0")
		zzStdinPiped(true)
		zzStdinPlan(p, false)
		err = RunPlan(nil, opts)
	case 3:
		_, err = runPrune(dir, opts, true)
	}
	zzAssume(!errors.Is(err, ErrLockBusy))
	zzAssert(zzHistoryPreserved(), "C12/history: every earlier event remains, in order, with unchanged content")
	zzReach("end")
}

func zzC12_HistoryNewTask() { zzC12HistoryGrows(0) }
func zzC12_HistoryClaim()   { zzC12HistoryGrows(1) }
func zzC12_HistoryPlan()    { zzC12HistoryGrows(2) }
func zzC12_HistoryPrune()   { zzC12HistoryGrows(3) }

// (1) totality: any two events whatsoever (any type string, any ids, malformed payloads,
// unparsable timestamps) replay to a graph or to an error - never a crash - and every reader of
// the graph terminates without crashing. The obligations are the panic and unwinding
// obligations the engine generates for every dereference, index, map write and loop.
func zzC12_Total()   { zzC12Total("2") }
func zzC12_Total_3() { zzC12Total("3") }

func zzC12Total(spec string) {
	var events []Event
	zzHavoc("events", &events, spec)
	g, err := replayEvents(events)
	if err != nil {
		zzReach("replay-error")
		return
	}
	zzReach("replayed")
	for _, t := range listTasks(g, zzString("epic"), zzBool("ready")) {
		_ = isBlocked(t, g)
	}
	_ = readyTasks(g, "", kindTask)
	_ = buildTaskListItems(listTasks(g, "", false), g, "repo")
	_ = selectPruneTargets(g)
	_, cerr := compactEvents(g)
	zzAssert(cerr == nil, "C12/total: compaction of any replayable log succeeds")
}

// (3) determinism: what `list --epics` prints must not depend on map iteration order, i.e. the
// order produced by sortByCreatedAt must not depend on the order it is given the epics in.
func zzC12_EpicOrder() {
	a := &Task{ID: "ID0", IsEpic: true, CreatedAt: zzTime("ta")}
	b := &Task{ID: "ID1", IsEpic: true, CreatedAt: zzTime("tb")}
	x := []*Task{a, b}
	y := []*Task{b, a}
	sortByCreatedAt(x)
	sortByCreatedAt(y)
	zzAssert(x[0] == y[0] && x[1] == y[1], "C12/determinism[epics with equal created_at]: list --epics order is a function of the log, not of map iteration order")
	zzReach("end")
}

// CUT for the show purity unit: the children listing (topological sort) is display logic.
func zzNoChildrenCut(epicID string, g *Graph) []*Task { return nil }

// Legacy title migration runs at the end of every replay over the body of each item whose title
// is blank; the engine summarises deriveTitleAndBodyFromLegacy by a pair of uninterpreted
// functions, so its totality is decided here, on bytes: the heading test it applies to every line
// never panics, for ANY line of up to 4 bytes.
func zzC12_LegacyHeadingTotal() {
	s := zzBytes("line", 4)
	for i := 0; i < len(s); i++ {
		zzAssume(s[i] < 0x80)
	}
	h := isLegacyHeading(s)
	t := zzTrimSpaceASCII(s)
	if len(t) == 0 || t[0] != '#' {
		zzAssert(!h, "C12/legacy: a line that does not start with '#' is not a heading")
	}
	zzReach("end")
}

// strings.TrimSpace on ASCII bytes (library code replaced for the byte-level unit; bytes >= 0x80
// are excluded by the unit's assumption, so Unicode spaces do not arise).
func zzTrimSpaceASCII(s string) string {
	i, j := 0, len(s)
	for i < j && zzIsSpaceByte(s[i]) {
		i++
	}
	for j > i && zzIsSpaceByte(s[j-1]) {
		j--
	}
	return s[i:j]
}

func zzIsSpaceByte(c byte) bool {
	return c == ' ' || c == '\t' || c == '\n' || c == '\r' || c == '\v' || c == '\f'
}

// strings.TrimPrefix, as in the library (replaced for the byte-level unit only).
func zzTrimPrefixBytes(s, prefix string) string {
	if strings.HasPrefix(s, prefix) {
		return s[len(prefix):]
	}
	return s
}

// strings.IndexFunc on ASCII bytes (one rune per byte under the unit's assumption).
func zzIndexFuncASCII(s string, f func(rune) bool) int {
	for i := 0; i < len(s); i++ {
		if f(rune(s[i])) {
			return i
		}
	}
	return -1
}
