// Harness intrinsics. The symbolic engine intercepts every zz* function by name
// (the bodies below are never encoded). Compiled natively (go test -overlay) they
// read their values from the scenario file named by ZZ_SCENARIO, which is how a
// solver model is replayed against the real code.
package ergo

import (
	"encoding/hex"
	"encoding/json"
	"fmt"
	"os"
	"path/filepath"
	"reflect"
	"strconv"
	"strings"
	"time"
)

type zzScenarioT struct {
	Values  map[string]string      `json:"values"` // nondet name -> concrete value (strings already concretised)
	Meta    map[string]interface{} `json:"meta"`   // engine-side facts about the encoding (effect indices ...)
	Failed  []string               `json:"-"`
	Reached []string               `json:"-"`
}

var zzScn *zzScenarioT

type zzAssumeFailed struct{ msg string }

func zzLoad() *zzScenarioT {
	if zzScn != nil {
		return zzScn
	}
	zzScn = &zzScenarioT{Values: map[string]string{}}
	if p := os.Getenv("ZZ_SCENARIO"); p != "" {
		data, err := os.ReadFile(p)
		if err != nil {
			panic(err)
		}
		if err := json.Unmarshal(data, zzScn); err != nil {
			panic(err)
		}
	}
	return zzScn
}

func zzReset() { zzScn = nil }

func zzAssume(c bool) {
	if !c {
		panic(zzAssumeFailed{"assumption does not hold in the replayed scenario"})
	}
}

func zzAssert(c bool, label string) {
	if !c {
		s := zzLoad()
		s.Failed = append(s.Failed, label)
	}
}

func zzReach(label string) {
	s := zzLoad()
	s.Reached = append(s.Reached, label)
}

var zzNotes []string

func zzNote(label string) { zzNotes = append(zzNotes, label) }

func zzErrText(err error) string {
	if err == nil {
		return "<nil>"
	}
	return err.Error()
}

func zzBool(name string) bool { return zzLoad().Values[name] == "true" }

func zzString(name string) string { return zzLoad().Values[name] }

func zzInt(name string) int {
	n, _ := strconv.Atoi(zzLoad().Values[name])
	return n
}

func zzTimeOf(v string) time.Time {
	if v == "" || v == "0" {
		return time.Time{}
	}
	n, _ := strconv.ParseInt(v, 10, 64)
	return time.Date(2024, 1, 1, 0, 0, 0, 0, time.UTC).Add(time.Duration(n) * time.Second)
}

func zzTime(name string) time.Time { return zzTimeOf(zzLoad().Values[name]) }

func zzBytes(name string, max int) string {
	b, _ := hex.DecodeString(zzLoad().Values[name+".hex"])
	return string(b)
}

// zzHavoc fills *ptr with an arbitrary value of its type. spec: "N;Field=K;..." gives the
// number of map entries / slice elements (default N, per struct-field overrides).
func zzHavoc(name string, ptr interface{}, spec string) {
	def := 2
	by := map[string]int{}
	constKeys := map[string]bool{}
	for i, p := range strings.Split(spec, ";") {
		p = strings.TrimSpace(p)
		if p == "" {
			continue
		}
		if i == 0 && !strings.Contains(p, "=") {
			def, _ = strconv.Atoi(p)
			continue
		}
		kv := strings.SplitN(p, "=", 2)
		if kv[0] == "constkeys" {
			for _, f := range strings.Split(kv[1], ",") {
				constKeys[f] = true
			}
			continue
		}
		n, _ := strconv.Atoi(kv[1])
		by[kv[0]] = n
	}
	bound := func(field string) int {
		if n, ok := by[field]; ok {
			return n
		}
		return def
	}
	vals := zzLoad().Values
	var fill func(name string, v reflect.Value, field string)
	fill = func(name string, v reflect.Value, field string) {
		t := v.Type()
		if t == reflect.TypeOf(time.Time{}) {
			v.Set(reflect.ValueOf(zzTimeOf(vals[name])))
			return
		}
		if t == reflect.TypeOf(json.RawMessage{}) {
			if vals[name+".malformed"] == "true" {
				// valid JSON whose fields have the wrong type: the payload structs refuse it
				v.SetBytes([]byte(`{"id":5,"ts":7,"from_id":1,"to_id":2,"task_id":3}`))
				return
			}
			m := map[string]string{}
			for _, k := range []string{"id", "uuid", "epic_id", "state", "title", "body", "created_at", "ts", "from_id", "to_id", "type",
				"agent_id", "task_id", "summary", "path", "sha256_at_attach", "mtime_at_attach", "git_commit_at_attach"} {
				if s, ok := vals[name+"."+k]; ok {
					m[k] = s
				}
			}
			data, _ := json.Marshal(m)
			v.SetBytes(data)
			return
		}
		switch t.Kind() {
		case reflect.Bool:
			v.SetBool(vals[name] == "true")
		case reflect.String:
			v.SetString(vals[name])
		case reflect.Int, reflect.Int64, reflect.Int32, reflect.Int16, reflect.Int8:
			n, _ := strconv.ParseInt(vals[name], 10, 64)
			v.SetInt(n)
		case reflect.Uint8, reflect.Uint16, reflect.Uint32, reflect.Uint64, reflect.Uint:
			n, _ := strconv.ParseUint(vals[name], 10, 64)
			v.SetUint(n)
		case reflect.Struct:
			for i := 0; i < t.NumField(); i++ {
				fill(name+"."+t.Field(i).Name, v.Field(i), t.Field(i).Name)
			}
		case reflect.Ptr:
			if k := t.Elem().Kind(); k != reflect.Struct && k != reflect.Map && k != reflect.Slice && vals[name+".nil"] == "true" {
				return // optional scalar left nil
			}
			nv := reflect.New(t.Elem())
			fill(name, nv.Elem(), field)
			v.Set(nv)
		case reflect.Map:
			m := reflect.MakeMap(t)
			for i := 0; i < bound(field); i++ {
				en := fmt.Sprintf("%s#%d", name, i)
				if vals[en+".live"] != "true" {
					continue
				}
				k := reflect.New(t.Key()).Elem()
				e := reflect.New(t.Elem()).Elem()
				fill(en+".val", e, field)
				if constKeys[field] {
					k.SetString(fmt.Sprintf("ID%d", i))
					if e.Kind() == reflect.Ptr && e.Elem().Kind() == reflect.Struct {
						if f := e.Elem().FieldByName("ID"); f.IsValid() && f.Kind() == reflect.String {
							f.SetString(k.String())
						}
					}
				} else {
					fill(en+".key", k, field)
				}
				m.SetMapIndex(k, e)
			}
			v.Set(m)
		case reflect.Slice:
			n := bound(field)
			ln, _ := strconv.Atoi(vals[name+".len"])
			if ln > n {
				ln = n
			}
			if ln == 0 && vals[name+".nil"] != "false" {
				return // nil slice (also the default when the scenario does not say)
			}
			s := reflect.MakeSlice(t, ln, n)
			for i := 0; i < ln; i++ {
				fill(fmt.Sprintf("%s#%d", name, i), s.Index(i), field)
			}
			v.Set(s)
		}
	}
	fill(name, reflect.ValueOf(ptr).Elem(), "")
}

// zzPreGraph is consumed by the overlay-patched replayEvents (see vlib/runner.py): when set,
// the real replay loop starts from this graph instead of an empty one.
var zzPreGraph *Graph

func zzReplayFrom(g *Graph, events []Event) (*Graph, error) {
	zzPreGraph = g
	defer func() { zzPreGraph = nil }()
	return replayEvents(events)
}

func zzItoa(n int) string { return strconv.Itoa(n) }

func zzBtoa(b bool) string { return strconv.FormatBool(b) }

// zzStatAny: natively the file system is real; the byte-level path harness only needs os.Stat to be
// arbitrary on the symbolic side.
func zzStatAny() {}

// zzLastStat natively: the path-rules unit is decided symbolically; natively the real file system
// answers (the replayed scenario creates the file when the model says it exists).
func zzLastStat() (string, bool, bool) { return "", false, false }

// zzRepoDir: symbolically an arbitrary directory name; natively a scratch directory a few levels
// deep (so that a path climbing out by one or two ".." still lands in scratch space).
func zzRepoDir() string {
	base, err := os.MkdirTemp("", "zzrepo")
	if err != nil {
		panic(err)
	}
	zzTempDirs = append(zzTempDirs, base)
	d := filepath.Join(base, "a", "b", "c")
	os.MkdirAll(d, 0o755)
	return d
}

var zzTempDirs []string

// zzStageFile: natively creates what the model's os.Stat answered for the candidate path (a
// regular file, a directory, or nothing), provided the cleaned path stays inside scratch space.
func zzStageFile(repo, raw string) {
	if zzLoad().Values["stat.missing!1"] == "true" {
		return
	}
	if filepath.IsAbs(raw) {
		return
	}
	p := filepath.Join(repo, filepath.Clean(raw))
	base := zzTempDirs[len(zzTempDirs)-1]
	if !strings.HasPrefix(p, base+string(filepath.Separator)) {
		return
	}
	if zzLoad().Values["stat.isdir!1"] == "true" {
		os.MkdirAll(p, 0o755)
		return
	}
	os.MkdirAll(filepath.Dir(p), 0o755)
	os.WriteFile(p, []byte("x"), 0o644)
}

// ---- directory-tree scenarios (C18 discovery) ----

var zzTreeBase, zzTreeOldWd string

// zzTreeRoot natively: builds <tmp>/x/y, creates the .ergo directories the scenario names and
// makes <tmp>/x the working directory (restored by zzWorldCleanup).
func zzTreeRoot() string {
	base, err := os.MkdirTemp("", "zztree")
	if err != nil {
		panic(err)
	}
	if r, err := filepath.EvalSymlinks(base); err == nil {
		base = r
	}
	zzTreeBase = base
	dirs := []string{base, filepath.Join(base, "x"), filepath.Join(base, "x", "y")}
	os.MkdirAll(dirs[2], 0o755)
	for i, d := range dirs {
		if zzLoad().Values["tree.ergo."+strconv.Itoa(i)] == "true" {
			os.MkdirAll(filepath.Join(d, ".ergo"), 0o755)
		}
	}
	zzTreeOldWd, _ = os.Getwd()
	os.Chdir(dirs[1])
	return base
}

func zzTreeHasErgo(depth int) bool {
	return zzLoad().Values["tree.ergo."+strconv.Itoa(depth)] == "true"
}

func zzSamePath(got, want string) bool {
	a, err1 := filepath.Abs(got)
	b, err2 := filepath.Abs(want)
	if err1 != nil || err2 != nil {
		return false
	}
	if r, err := filepath.EvalSymlinks(a); err == nil {
		a = r
	}
	if r, err := filepath.EvalSymlinks(b); err == nil {
		b = r
	}
	return a == b
}

// ---- display-width abstraction: natively the real functions ----
func zzWidthMode()                    {}
func zzWidth(s string) int            { return visibleLen(s) }
func zzStrip(s string) string         { return stripANSICodes(s) }
func zzTruncUF(s string, w int) string { return truncateToWidth(s, w) }

// zzIsNative: false under symbolic execution, true in the native replay (guards cross-checks of
// harness-level models against the library).
func zzIsNative() bool { return true }

// zzTouchUnder: natively creates the regular file root/rel (when rel is a plain relative path), so
// that a result attachment naming it passes the real existence checks; symbolically a no-op (the
// path checks are stubs there).
func zzTouchUnder(root, rel string) {
	if rel == "" || filepath.IsAbs(rel) || strings.Contains(rel, "..") {
		return
	}
	p := filepath.Join(root, rel)
	os.MkdirAll(filepath.Dir(p), 0o755)
	os.WriteFile(p, []byte("x"), 0o644)
}
