package ergo

import "strings"

// C11: plan creates the whole described graph or nothing.

func zzBlank(s string) bool { return strings.TrimSpace(s) == "" }

// zzPlanLocallyValid: the validity of a plan document, written from the statement, except for
// acyclicity: non-blank epic title, at least one task, non-blank pairwise-distinct task titles,
// bodies absent or non-blank, every `after` entry non-blank, not the task itself, and naming some
// task's exact title.
func zzPlanLocallyValid(p *PlanInput) bool {
	if p.Title == nil || zzBlank(*p.Title) {
		return false
	}
	if p.Body != nil && zzBlank(*p.Body) {
		return false
	}
	if len(p.Tasks) == 0 {
		return false
	}
	ok := true
	for i, t := range p.Tasks {
		if t.Title == nil || zzBlank(*t.Title) {
			ok = false
			continue
		}
		if t.Body != nil && zzBlank(*t.Body) {
			ok = false
		}
		for j, u := range p.Tasks {
			if j < i && u.Title != nil && *u.Title == *t.Title {
				ok = false
			}
		}
		for _, dep := range t.After {
			if zzBlank(dep) || dep == *t.Title {
				ok = false
				continue
			}
			found := false
			for _, u := range p.Tasks {
				if u.Title != nil && *u.Title == dep {
					found = true
				}
			}
			if !found {
				ok = false
			}
		}
	}
	return ok
}

// zzPlanEdge: entry i names entry j in its after list.
func zzPlanEdge(p *PlanInput, i, j int) bool {
	if i >= len(p.Tasks) || j >= len(p.Tasks) || p.Tasks[j].Title == nil {
		return false
	}
	for _, dep := range p.Tasks[i].After {
		if dep == *p.Tasks[j].Title {
			return true
		}
	}
	return false
}

// zzPlanCyclic: cycles of length 2 and 3 over at most three entries, enumerated.
func zzPlanCyclic(p *PlanInput) bool {
	c := false
	for i := 0; i < 3; i++ {
		for j := 0; j < 3; j++ {
			if i != j && zzPlanEdge(p, i, j) && zzPlanEdge(p, j, i) {
				c = true
			}
			for k := 0; k < 3; k++ {
				if i != j && j != k && i != k && zzPlanEdge(p, i, j) && zzPlanEdge(p, j, k) && zzPlanEdge(p, k, i) {
					c = true
				}
			}
		}
	}
	return c
}

// summary of hasPlanCycle for the RunPlan unit (hasPlanCycle itself is exercised, unsummarised,
// by the Validate-vs-spec unit): some title reaches itself along depsByTitle within 3 steps.
func zzPlanCycleSpec(titles map[string]int, depsByTitle map[string][]string) bool {
	c := false
	for a := range titles {
		for _, b := range depsByTitle[a] {
			if b == a {
				c = true
			}
			for _, d := range depsByTitle[b] {
				if d == a {
					c = true
				}
				for _, e := range depsByTitle[d] {
					if e == a {
						c = true
					}
				}
			}
		}
	}
	return c
}

func zzPlanDoc(spec string) *PlanInput {
	p := &PlanInput{}
	zzHavoc("plan", p, spec)
	return p
}

// Validate() == nil  <=>  the document is valid.
func zzC11Validate(spec string) {
	p := zzPlanDoc(spec)
	verr := p.Validate()
	valid := zzPlanLocallyValid(p) && !zzPlanCyclic(p)
	zzAssert((verr == nil) == valid, "C11/validate: a document is accepted exactly when it is valid")
	zzReach("end")
}

func zzC11_Validate_T2() { zzC11Validate("2;Tasks=2;After=2") }
func zzC11_Validate_T3()   { zzC11Validate("3;Tasks=3;After=2") }
func zzC11_Validate_T3A1() { zzC11Validate("3;Tasks=3;After=1") }

// RunPlan through the world: everything or nothing.
func zzC11Run(spec string) {
	g := zzC14Store("2;Results=0;RDeps=0;Tombstones=1;constkeys=Tasks,Meta,Deps")
	for k := range g.Tombstones {
		zzAssume(k == "AAAAAA")
	}
	root := zzWorldInit(g)
	zzPinRand()
	opts := zzCmdOpts(root)
	p := zzPlanDoc(spec)
	zzStdinPiped(true)
	zzStdinPlan(p, zzBool("stdin.parseError"))
	err := RunPlan(nil, opts)
	written := zzWritten()
	zzAfter("plan", err, opts.JSON)
	if err != nil {
		zzAssert(len(written) == 0, "C11/run: a rejected or failing plan writes nothing")
		return
	}
	zzAssert(zzPlanLocallyValid(p) && !zzPlanCyclic(p), "C11/run: only valid documents are applied")
	g2, perr := zzPost()
	zzAssert(perr == nil, "C11/run: store replays after plan")
	if perr != nil {
		return
	}
	zzReach("applied")
	// old items untouched
	for k, t := range g.Tasks {
		zzAssert(zzUnchangedItem(t, g2.Tasks[k]), "C11/run: nothing that existed before is altered")
	}
	// exactly one new epic and one new task per entry
	nEpics, nTasks := 0, 0
	epicID := ""
	for k, t := range g2.Tasks {
		if _, old := g.Tasks[k]; old {
			continue
		}
		if t.IsEpic {
			nEpics++
			epicID = k
			zzAssert(t.Title == *p.Title && (p.Body == nil && t.Body == "" || p.Body != nil && t.Body == *p.Body), "C11/run: epic title/body identical to the input")
		} else {
			nTasks++
			zzAssert(t.State == "todo" && t.ClaimedBy == "", "C11/run: new tasks are todo and unclaimed")
		}
	}
	zzAssert(nEpics == 1 && nTasks == len(p.Tasks), "C11/run: exactly one epic and one task per entry")
	for k, t := range g2.Tasks {
		if _, old := g.Tasks[k]; !old && !t.IsEpic {
			zzAssert(t.EpicID == epicID, "C11/run: every new task is inside the new epic")
			// it corresponds to exactly the entry with its title
			matches := 0
			for _, e := range p.Tasks {
				if e.Title != nil && *e.Title == t.Title {
					matches++
					zzAssert(e.Body == nil && t.Body == "" || e.Body != nil && t.Body == *e.Body, "C11/run: task body identical to the input")
					// edges: exactly the after relation
					for k2, u := range g2.Tasks {
						if _, old2 := g.Tasks[k2]; old2 || u.IsEpic {
							continue
						}
						named := false
						for _, dep := range e.After {
							if dep == u.Title {
								named = true
							}
						}
						zzAssert(zzEdge(g2, k, k2) == named, "C11/run: dependency edges are exactly those named by after")
					}
				}
			}
			zzAssert(matches == 1, "C11/run: each new task carries the title of exactly one entry")
		}
	}
}

func zzC11_Run_T2()   { zzC11Run("2;Tasks=2;After=1") }

// Fan-in document: three entries of which only the last names predecessors, up to three of them
// (so A,B,A and A,A,B are included). The reply's edge list must be the edge set a read shows:
// every reported edge present, none reported twice (seed C11k).
func zzC11_Run_Fan3() {
	g := zzC14Store("1;Results=0;RDeps=0;Tombstones=0;constkeys=Tasks,Meta,Deps")
	root := zzWorldInit(g)
	zzPinRand()
	opts := zzCmdOpts(root)
	p := zzPlanDoc("3;Tasks=3;After=3")
	zzAssume(len(p.Tasks) == 3 && len(p.Tasks[0].After) == 0 && len(p.Tasks[1].After) == 0)
	zzStdinPiped(true)
	zzStdinPlan(p, false)
	err := RunPlan(nil, opts)
	zzAfter("plan", err, opts.JSON)
	if err != nil || !opts.JSON {
		return
	}
	g2, perr := zzPost()
	if perr != nil {
		return
	}
	edges := zzOutEdges()
	zzReach("fan-applied")
	nRead := 0
	for _, ds := range g2.Deps {
		nRead += len(ds)
	}
	for i, e := range edges {
		zzAssert(zzEdge(g2, e.FromID, e.ToID), "C11/reply: every reported edge is what a following read shows")
		for j := 0; j < i; j++ {
			zzAssert(edges[j].FromID != e.FromID || edges[j].ToID != e.ToID, "C11/reply: no edge is reported twice")
		}
	}
	zzAssert(len(edges) == nRead-zzDepCount(g), "C11/reply: as many edges reported as a following read shows added")
}

func zzDepCount(g *Graph) int {
	n := 0
	for _, ds := range g.Deps {
		n += len(ds)
	}
	return n
}
func zzC11_Run_T2A2() { zzC11Run("2;Tasks=2;After=2") }

// C10 for plan: whatever makes RunPlan return an error (parse error, invalid document, busy lock, a
// late internal check), nothing has been handed to the log. Two tasks with up to two after entries
// each, so repeated and redundant after entries are included.
func zzC10_PlanFails_A2() {
	g := zzC14Store("1;Results=0;RDeps=0;Tombstones=0;constkeys=Tasks,Meta,Deps")
	root := zzWorldInit(g)
	opts := zzCmdOpts(root)
	p := zzPlanDoc("2;Tasks=2;After=2")
	zzStdinPiped(true)
	zzStdinPlan(p, zzBool("stdin.parseError"))
	err := RunPlan(nil, opts)
	written := zzWritten()
	if err != nil {
		zzReach("plan-failed")
		zzAssert(len(written) == 0, "C10/plan: a failing plan writes nothing")
		return
	}
	zzReach("plan-applied")
}
