package ergo

func zzDbg1() {
	g := &Graph{}
	zzHavoc("g", g, "2;Results=0;Deps=2;RDeps=0;Meta=0;Tombstones=0")
	n := 0
	for _, t := range g.Tasks {
		for dep := range g.Deps[t.ID] {
			if g.Tasks[dep] != nil {
				n++
			}
		}
	}
	zzAssert(n <= 4, "n<=4")
	zzAssert(n <= 3, "n<=3 (should fail)")
}
