package ergo

import "unicode/utf8"

func zzDbg_Abbrev() {
	s := zzBytes("title", 6)
	n := zzInt("maxLen")
	zzAssume(n >= 2 && n <= 5)
	zzAssume(zzUTF8Valid(s))
	zzAssume(len(s) > n)
	p := s[:n-1]
	zzAssert(len(p) == n-1, "dbg: prefix length")
	r := p + "…"
	zzAssert(len(r) == n+2, "dbg: result length")
	zzAssert(r[len(r)-1] == 0xa6 && r[len(r)-2] == 0x80 && r[len(r)-3] == 0xe2, "dbg: tail bytes")
	zzAssert(r[0] == s[0], "dbg: first byte")
	if s[0] < 0x80 && n == 2 {
		zzAssert(zzUTF8Valid(r), "dbg: spec valid for ascii+ellipsis")
		zzAssert(utf8.ValidString(r), "dbg: lib valid for ascii+ellipsis")
	}
	zzReach("end")
}
