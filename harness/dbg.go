package ergo

func zzDbgMirror() {
	g, _ := zzC07Store("2;Results=0;RDeps=0;Tombstones=0;constkeys=Tasks,Meta,Deps")
	root := zzWorldInit(g)
	opts := GlobalOptions{StartDir: root}
	dir, derr := ergoDir(opts)
	zzAssume(derr == nil)
	err := writeLinkEvent(dir, opts, "link", zzString("from"), zzString("to"))
	g2, perr := zzPost()
	if err != nil || perr != nil {
		return
	}
	for id, t := range g2.Tasks {
		for _, d := range t.Deps {
			zzAssert(zzEdge(g2, id, d), "dbg1: every listed dep is an edge")
			o := g2.Tasks[d]
			if o != nil {
				found := false
				for _, r := range o.RDeps {
					if r == id {
						found = true
					}
				}
				zzAssert(found, "dbg2: dep's rdeps contain me")
			}
		}
		for _, r := range t.RDeps {
			zzAssert(zzEdge(g2, r, id), "dbg3: every listed rdep is an edge")
		}
		for d := range g2.Deps[id] {
			found := false
			for _, x := range t.Deps {
				if x == d {
					found = true
				}
			}
			zzAssert(found, "dbg4: every edge is listed in deps")
		}
	}
}
