// Native side of the world intrinsics (engine side: /verif/engine/world.go).
// Natively the "world" is a real scratch project directory: the symbolic pre-state graph is
// written out as a log (compactEvents + tombstones), the real commands run against it, and the
// observations (post-state, new log lines, stdout/stderr) are read back from the real files.
package ergo

import (
	"bytes"
	"crypto/rand"
	"encoding/json"
	"io"
	"os"
	"path/filepath"
	"sort"
	"strconv"
	"strings"
	"syscall"
	"time"
)

type zzWorldT struct {
	root      string
	dir       string
	initial   int
	stdoutF   *os.File
	stderrF   *os.File
	savedOut  *os.File
	savedErr  *os.File
	savedIn   *os.File
	lockFD    int
	holdsLock bool
}

var zzW *zzWorldT

func zzWorldCleanup() {
	zzPipedSet = false
	if zzTreeOldWd != "" {
		os.Chdir(zzTreeOldWd)
		zzTreeOldWd = ""
	}
	if zzTreeBase != "" {
		os.RemoveAll(zzTreeBase)
		zzTreeBase = ""
	}
	for _, d := range zzTempDirs {
		os.RemoveAll(d)
	}
	zzTempDirs = nil
	if zzSavedRand != nil {
		rand.Reader = zzSavedRand
	}
	if zzW == nil {
		return
	}
	if zzW.savedOut != nil {
		os.Stdout = zzW.savedOut
		os.Stderr = zzW.savedErr
		os.Stdin = zzW.savedIn
	}
	if zzW.holdsLock {
		syscall.Close(zzW.lockFD)
	}
	os.RemoveAll(zzW.root)
	zzW = nil
}

// zzWorldInit materialises g as a real store and returns the project root (use as StartDir).
func zzWorldInit(g *Graph) string {
	zzWorldCleanup()
	root, err := os.MkdirTemp("", "ergo-zzworld-")
	if err != nil {
		panic(err)
	}
	w := &zzWorldT{root: root, dir: filepath.Join(root, ".ergo")}
	zzW = w
	if err := os.MkdirAll(w.dir, 0755); err != nil {
		panic(err)
	}
	// derived fields compactEvents relies on
	events, err := compactEvents(g)
	if err != nil {
		panic(err)
	}
	var tombs []string
	for id := range g.Tombstones {
		tombs = append(tombs, id)
	}
	sort.Strings(tombs)
	for _, id := range tombs {
		info := g.Tombstones[id]
		at := info.At
		if at.IsZero() {
			at = time.Date(2024, 1, 1, 0, 0, 0, 0, time.UTC)
		}
		ev, err := newEvent("tombstone", at, TombstoneEvent{ID: id, AgentID: info.AgentID, TS: formatTime(at)})
		if err != nil {
			panic(err)
		}
		events = append(events, ev)
	}
	if err := writeEventsFile(filepath.Join(w.dir, plansFileName), events); err != nil {
		panic(err)
	}
	w.initial = len(events)
	vals := zzLoad().Values
	if vals["world.lock.missing!1"] != "true" {
		if err := os.WriteFile(filepath.Join(w.dir, "lock"), nil, 0644); err != nil {
			panic(err)
		}
	}
	if vals["world.lock.busy!1"] == "true" {
		lp := filepath.Join(w.dir, "lock")
		os.WriteFile(lp, nil, 0644)
		fd, err := syscall.Open(lp, syscall.O_RDONLY, 0)
		if err == nil && syscall.Flock(fd, syscall.LOCK_EX|syscall.LOCK_NB) == nil {
			w.lockFD = fd
			w.holdsLock = true
		}
	}
	// capture the terminal
	w.savedOut, w.savedErr, w.savedIn = os.Stdout, os.Stderr, os.Stdin
	w.stdoutF, _ = os.Create(filepath.Join(root, "zz-stdout"))
	w.stderrF, _ = os.Create(filepath.Join(root, "zz-stderr"))
	os.Stdout, os.Stderr = w.stdoutF, w.stderrF
	if dn, err := os.Open(os.DevNull); err == nil {
		os.Stdin = dn
	}
	// result files the scenario says exist
	if vals["world.resultpath.bad"] == "false" {
		for k, v := range vals {
			if strings.HasSuffix(k, "resultpath") || strings.HasSuffix(k, "result_path") || strings.HasSuffix(k, "ResultPath") || strings.HasSuffix(k, "ResultPathFlag") {
				// the path as given and its trimmed spelling (some input modes trim)
				for _, name := range []string{v, strings.TrimSpace(v)} {
					if name != "" && !filepath.IsAbs(name) {
						p := filepath.Join(root, name)
						os.MkdirAll(filepath.Dir(p), 0755)
						os.WriteFile(p, []byte("result"), 0644)
					}
				}
			}
		}
	}
	return root
}

var zzPipedSet, zzPiped bool

// zzStdinPiped fixes what stdinIsPiped() will observe (a regular file vs /dev/null).
func zzStdinPiped(b bool) { zzPipedSet, zzPiped = true, b }

func zzSetStdin(content []byte) {
	piped := zzLoad().Values["world.stdinIsPiped"] == "true"
	if zzPipedSet {
		piped = zzPiped
	}
	if !piped {
		return // stays /dev/null: a character device, i.e. "not piped"
	}
	p := filepath.Join(zzW.root, "zz-stdin")
	if err := os.WriteFile(p, content, 0644); err != nil {
		panic(err)
	}
	f, err := os.Open(p)
	if err != nil {
		panic(err)
	}
	os.Stdin = f
}

func zzStdinTask(in *TaskInput, parseError bool) {
	if parseError {
		zzSetStdin([]byte("{\"title\": "))
		return
	}
	data, err := json.Marshal(in)
	if err != nil {
		panic(err)
	}
	zzSetStdin(data)
}

func zzStdinPlan(in *PlanInput, parseError bool) {
	if parseError {
		zzSetStdin([]byte("{\"title\": "))
		return
	}
	data, err := json.Marshal(in)
	if err != nil {
		panic(err)
	}
	zzSetStdin(data)
}

func zzStdinText(s string) {
	// --body-stdin reads stdin whatever it is; make it a regular file
	p := filepath.Join(zzW.root, "zz-stdin")
	os.WriteFile(p, []byte(s), 0644)
	f, _ := os.Open(p)
	os.Stdin = f
}

func zzWritten() []Event {
	events, err := readEvents(getEventsPath(zzW.dir))
	if err != nil {
		panic(err)
	}
	if len(events) < zzW.initial {
		return nil
	}
	return events[zzW.initial:]
}

func zzPost() (*Graph, error) {
	return loadGraph(zzW.dir)
}

func zzStreamContent(stream string) []byte {
	var f *os.File
	switch stream {
	case "stdout":
		f = zzW.stdoutF
	case "stderr":
		f = zzW.stderrF
	default:
		return nil
	}
	f.Sync()
	data, _ := os.ReadFile(f.Name())
	return data
}

// zzOutCount: "json" = number of top-level JSON values on the stream; "text" = 1 if anything
// other than JSON values and whitespace was written, else 0.
func zzOutCount(stream, kind string) int {
	data := zzStreamContent(stream)
	dec := json.NewDecoder(bytes.NewReader(data))
	n := 0
	text := 0
	for {
		var v interface{}
		err := dec.Decode(&v)
		if err == io.EOF {
			break
		}
		if err != nil {
			text = 1
			break
		}
		switch v.(type) {
		case map[string]interface{}, []interface{}:
			n++
		default:
			text = 1
		}
	}
	if kind == "json" {
		return n
	}
	return text
}

func zzLastJSON() interface{} {
	data := zzStreamContent("stdout")
	dec := json.NewDecoder(bytes.NewReader(data))
	var last interface{}
	for {
		var v interface{}
		if err := dec.Decode(&v); err != nil {
			break
		}
		last = v
	}
	return last
}

// zzScriptedRand replays the scenario's random draws: the n-th read (ids are 4 bytes, uuids 16)
// yields zero bytes - which encode to the id "AAAAAA" - exactly when the scenario's n-th draw is
// that id; every other draw comes from the real source.
type zzScriptedRand struct {
	n    int
	real io.Reader
}

func (r *zzScriptedRand) Read(p []byte) (int, error) {
	r.n++
	if len(p) == 4 && zzLoad().Values["shortid!"+strconv.Itoa(r.n)] == "AAAAAA" {
		for i := range p {
			p[i] = 0
		}
		return len(p), nil
	}
	return r.real.Read(p)
}

var zzSavedRand io.Reader

// zzPinRand installs the scripted random source (see zzScriptedRand).
func zzPinRand() {
	if zzSavedRand == nil {
		zzSavedRand = rand.Reader
	}
	rand.Reader = &zzScriptedRand{real: zzSavedRand}
}

// zzLockStats cannot be observed natively; obligations on it are structural (flag constants).
func zzLockStats() (int, bool, bool) { return 0, true, true }

// zzOutEdges: the "edges" array of the sequence or plan reply last written to stdout (nil when the last JSON
// value is not a sequence reply). Natively the bytes on stdout are decoded; symbolically the value
// handed to writeJSON is read.
func zzOutEdges() []sequenceEdgeOutput {
	v := zzLastJSON()
	if zzIsNative() {
		raw, err := json.Marshal(v)
		if err != nil {
			return nil
		}
		var so sequenceOutput
		if json.Unmarshal(raw, &so) != nil || (so.Kind != "sequence" && so.Kind != "plan") {
			return nil
		}
		return so.Edges
	}
	if so, ok := v.(sequenceOutput); ok {
		return so.Edges
	}
	if po, ok := v.(planOutput); ok {
		return po.Edges
	}
	return nil
}

// zzOutStr: string field of the last JSON object written to stdout ("" when absent).
func zzOutStr(field string) string {
	if m, ok := zzLastJSON().(map[string]interface{}); ok {
		if s, ok := m[field].(string); ok {
			return s
		}
	}
	return ""
}
