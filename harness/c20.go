package ergo

import (
	"path/filepath"
	"strings"
)

// C20: result attachments are confined, faithful and never lost.
//
// Path rules (atom level): strings are opaque; filepath.Clean / IsAbs / Join and the strings
// predicates are uninterpreted functions. What is decided is the DATA FLOW of validateResultPath:
// every lexical rule is applied to the cleaned path, the cleaned path is what is stat'ed (below
// the project root) and what is returned for recording, and directories / missing files are
// refused. That the lexical rules themselves imply confinement is a byte-level statement about
// filepath.Clean which this engine did not reach (see DESIGN).
func zzC20_PathRules() {
	zzStatAny()
	repo := zzRepoDir()
	raw := zzString("relPath")
	zzStageFile(repo, raw)
	got, err := validateResultPath(repo, raw)
	clean := filepath.Clean(raw)
	if err != nil {
		zzReach("rejected")
		return
	}
	zzReach("accepted")
	zzAssert(got == clean, "C20/path: the recorded path is the cleaned path")
	zzAssert(!filepath.IsAbs(clean), "C20/path: an absolute path is never accepted")
	zzAssert(!strings.HasPrefix(clean, "..") && !strings.Contains(clean, "/.."), "C20/path: a cleaned path that climbs out of the project is never accepted")
	zzAssert(!strings.HasPrefix(clean, ".ergo/") && clean != ".ergo", "C20/path: a cleaned path inside .ergo is never accepted")
	statted, missing, isDir := zzLastStat()
	zzAssert(statted == filepath.Join(repo, clean), "C20/path/struct: the file that was checked is the cleaned path below the project root")
	zzAssert(!missing && !isDir, "C20/path/struct: missing files and directories are refused")
}

// One arbitrary event applied by the real replay loop body: a result event prepends exactly one
// entry carrying the payload's six fields to its task; no other event touches any Results list
// (a tombstone removes the whole task).
func zzC20_ResultStep() {
	g := &Graph{}
	zzHavoc("g", g, "2;Results=2;RDeps=0;Tombstones=1;Deps=0;constkeys=Tasks,Meta")
	zzAssumeI1(g)
	var ev Event
	zzHavoc("ev", &ev, "1")
	type snap struct {
		n int
		r [2]Result
	}
	pre := map[string]snap{}
	for k, t := range g.Tasks {
		s := snap{n: len(t.Results)}
		for i := 0; i < len(t.Results) && i < 2; i++ {
			s.r[i] = t.Results[i]
		}
		pre[k] = s
	}
	var data ResultEvent
	isResult := ev.Type == "result"
	g2, err := zzReplayFrom(g, []Event{ev})
	if err != nil {
		zzReach("replay-error")
		return
	}
	zzReach("replayed")
	_ = data
	for k, s := range pre {
		t := g2.Tasks[k]
		if t == nil {
			zzAssert(ev.Type == "tombstone", "C20/step: only a tombstone removes a task (and its results)")
			continue
		}
		grew := len(t.Results) == s.n+1
		same := len(t.Results) == s.n
		zzAssert(grew || same, "C20/step: one event adds at most one result")
		if !isResult {
			zzAssert(same, "C20/step: only result events change a Results list")
		}
		off := 0
		if grew {
			off = 1
			zzAssert(isResult, "C20/step: a new entry comes from a result event")
		}
		for i := 0; i < s.n && i < 2; i++ {
			if i+off < len(t.Results) {
				a, b := t.Results[i+off], s.r[i]
				zzAssert(a.Summary == b.Summary && a.Path == b.Path && a.Sha256AtAttach == b.Sha256AtAttach && a.MtimeAtAttach == b.MtimeAtAttach &&
					a.GitCommitAtAttach == b.GitCommitAtAttach && a.CreatedAt.Equal(b.CreatedAt), "C20/step: earlier results are kept, in order, unaltered (the new one goes first)")
			}
		}
	}
}

// Attaching through set: only to a live task (not an epic, unknown or pruned id); the recorded
// path is the validated one, the summary is trimmed, the evidence is the one captured for that path.
func zzC20_Attach() {
	g := zzCmdStore()
	root := zzWorldInit(g)
	opts := GlobalOptions{StartDir: root, AgentID: zzString("agent")}
	dir, derr := ergoDir(opts)
	zzAssume(derr == nil)
	id := zzString("id")
	summary := zzString("summary")
	path := zzString("resultpath")
	err := applySetUpdates(dir, opts, id, map[string]string{"result.path": path, "result.summary": summary}, opts.AgentID, true)
	pre := g.Tasks[id]
	if err != nil {
		zzAssert(len(zzWritten()) == 0, "C20/attach: a refused attachment writes nothing")
		zzReach("refused")
		return
	}
	zzReach("attached")
	zzAssert(pre != nil && !pre.IsEpic, "C20/attach: only a live task (never an epic, unknown or pruned id) gets a result")
	g2, perr := zzPost()
	zzAssert(perr == nil, "C20/attach: store replays")
	if perr != nil || pre == nil {
		return
	}
	t := g2.Tasks[id]
	zzAssert(t != nil && len(t.Results) == len(pre.Results)+1, "C20/attach: exactly one result is added")
	if t != nil && len(t.Results) > 0 {
		zzAssert(t.Results[0].Summary == strings.TrimSpace(summary), "C20/attach: the summary is recorded (trimmed)")
	}
}
