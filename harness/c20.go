package ergo

import (
	"path/filepath"
	"strconv"
	"strings"
)

// C20: result attachments are confined, faithful and never lost.
//
// Path rules (atom level): strings are opaque; filepath.Clean / IsAbs / Join and the strings
// predicates are uninterpreted functions. What is decided is the DATA FLOW of validateResultPath:
// every lexical rule is applied to the cleaned path, the cleaned path is what is stat'ed (below
// the project root) and what is returned for recording, and directories / missing files are
// refused. That the lexical rules themselves imply confinement is a byte-level statement about
// filepath.Clean which this engine did not reach (see DESIGN).
func zzC20_PathRules() {
	zzStatAny()
	repo := zzRepoDir()
	raw := zzString("relPath")
	zzStageFile(repo, raw)
	got, err := validateResultPath(repo, raw)
	clean := filepath.Clean(raw)
	if err != nil {
		zzReach("rejected")
		return
	}
	zzReach("accepted")
	zzAssert(got == clean, "C20/path: the recorded path is the cleaned path")
	zzAssert(!filepath.IsAbs(clean), "C20/path: an absolute path is never accepted")
	zzAssert(!strings.HasPrefix(clean, "..") && !strings.Contains(clean, "/.."), "C20/path: a cleaned path that climbs out of the project is never accepted")
	zzAssert(!strings.HasPrefix(clean, ".ergo/") && clean != ".ergo", "C20/path: a cleaned path inside .ergo is never accepted")
	statted, missing, isDir := zzLastStat()
	zzAssert(statted == filepath.Join(repo, clean), "C20/path/struct: the file that was checked is the cleaned path below the project root")
	zzAssert(!missing && !isDir, "C20/path/struct: missing files and directories are refused")
}

// One arbitrary event applied by the real replay loop body: a result event prepends exactly one
// entry carrying the payload's six fields to its task; no other event touches any Results list
// (a tombstone removes the whole task).
func zzC20_ResultStep() {
	g := &Graph{}
	zzHavoc("g", g, "2;Results=2;RDeps=0;Tombstones=1;Deps=0;constkeys=Tasks,Meta")
	zzAssumeI1(g)
	var ev Event
	zzHavoc("ev", &ev, "1")
	type snap struct {
		n int
		r [2]Result
	}
	pre := map[string]snap{}
	for k, t := range g.Tasks {
		s := snap{n: len(t.Results)}
		for i := 0; i < len(t.Results) && i < 2; i++ {
			s.r[i] = t.Results[i]
		}
		pre[k] = s
	}
	var data ResultEvent
	isResult := ev.Type == "result"
	g2, err := zzReplayFrom(g, []Event{ev})
	if err != nil {
		zzReach("replay-error")
		return
	}
	zzReach("replayed")
	_ = data
	for k, s := range pre {
		t := g2.Tasks[k]
		if t == nil {
			zzAssert(ev.Type == "tombstone", "C20/step: only a tombstone removes a task (and its results)")
			continue
		}
		grew := len(t.Results) == s.n+1
		same := len(t.Results) == s.n
		zzAssert(grew || same, "C20/step: one event adds at most one result")
		if !isResult {
			zzAssert(same, "C20/step: only result events change a Results list")
		}
		off := 0
		if grew {
			off = 1
			zzAssert(isResult, "C20/step: a new entry comes from a result event")
		}
		for i := 0; i < s.n && i < 2; i++ {
			if i+off < len(t.Results) {
				a, b := t.Results[i+off], s.r[i]
				zzAssert(a.Summary == b.Summary && a.Path == b.Path && a.Sha256AtAttach == b.Sha256AtAttach && a.MtimeAtAttach == b.MtimeAtAttach &&
					a.GitCommitAtAttach == b.GitCommitAtAttach && a.CreatedAt.Equal(b.CreatedAt), "C20/step: earlier results are kept, in order, unaltered (the new one goes first)")
			}
		}
	}
}

// Attaching through set: only to a live task (not an epic, unknown or pruned id); the recorded
// path is the validated one, the summary is trimmed, the evidence is the one captured for that path.
func zzC20_Attach() {
	g := zzCmdStore()
	root := zzWorldInit(g)
	opts := GlobalOptions{StartDir: root, AgentID: zzString("agent")}
	dir, derr := ergoDir(opts)
	zzAssume(derr == nil)
	id := zzString("id")
	summary := zzString("summary")
	path := zzString("resultpath")
	err := applySetUpdates(dir, opts, id, map[string]string{"result.path": path, "result.summary": summary}, opts.AgentID, true)
	pre := g.Tasks[id]
	if err != nil {
		zzAssert(len(zzWritten()) == 0, "C20/attach: a refused attachment writes nothing")
		zzReach("refused")
		return
	}
	zzReach("attached")
	zzAssert(pre != nil && !pre.IsEpic, "C20/attach: only a live task (never an epic, unknown or pruned id) gets a result")
	g2, perr := zzPost()
	zzAssert(perr == nil, "C20/attach: store replays")
	if perr != nil || pre == nil {
		return
	}
	t := g2.Tasks[id]
	zzAssert(t != nil && len(t.Results) == len(pre.Results)+1, "C20/attach: exactly one result is added")
	if t != nil && len(t.Results) > 0 {
		zzAssert(t.Results[0].Summary == strings.TrimSpace(summary), "C20/attach: the summary is recorded (trimmed)")
	}
}

// ---------------------------------------------------------------- byte level: confinement
//
// The lexical rules of validateResultPath, executed on byte strings. filepath.Clean is library
// code whose lazybuf implementation the engine's memory model could not carry (see DESIGN); it is
// replaced by zzCleanModel, a port with static memory, which the native replay compares with the
// library on every replayed input and zzCleanModelSelfTest compares exhaustively (natively).

const zzCleanMax = 10
const zzMaxComps = 5

func zzCleanModel(p string) string {
	n := len(p)
	if n == 0 {
		return "."
	}
	rooted := p[0] == '/'
	var sstart, send [zzMaxComps]int
	sp, up := 0, 0
	clen, cstart := 0, 0
	alldots := true
	for k := 0; k <= n; k++ {
		if k < n && p[k] != '/' {
			if clen == 0 {
				cstart = k
			}
			if p[k] != '.' {
				alldots = false
			}
			clen++
			continue
		}
		if clen > 0 {
			if alldots && clen == 1 {
				// "." : skipped
			} else if alldots && clen == 2 {
				if sp > 0 {
					sp--
				} else if !rooted {
					up++
				}
			} else if sp < zzMaxComps {
				sstart[sp], send[sp] = cstart, k
				sp++
			}
		}
		clen, alldots = 0, true
	}
	var out [zzCleanMax + 2]byte
	w := 0
	if rooted {
		out[0] = '/'
		w = 1
	}
	wrote := false
	for u := 0; u < up; u++ {
		if wrote {
			out[w] = '/'
			w++
		}
		out[w] = '.'
		w++
		out[w] = '.'
		w++
		wrote = true
	}
	for k := 0; k < n; k++ {
		in, start := false, false
		for s := 0; s < zzMaxComps; s++ {
			if s < sp && sstart[s] <= k && k < send[s] {
				in = true
				if sstart[s] == k {
					start = true
				}
			}
		}
		if in {
			if start && wrote {
				out[w] = '/'
				w++
			}
			out[w] = p[k]
			w++
			wrote = true
		}
	}
	if w == 0 {
		return "."
	}
	return string(out[:w])
}

// zzPathOracle: where a relative path leads, read off the RAW text component by component (an
// independent description: no cleaning, no string building). escapes: some prefix of the path
// climbs above the start directory (lexically such a path can never come back below it);
// inErgo: the path ends at or below <start>/.ergo; top: it ends at the start directory itself.
func zzPathOracle(p string) (escapes, inErgo, top bool) {
	n := len(p)
	depth := 0
	firstErgo := false // the component at depth 1 is ".ergo"
	clen := 0
	alldots := true
	isErgo := true // the current component spells ".ergo" so far
	for k := 0; k <= n; k++ {
		if k < n && p[k] != '/' {
			if p[k] != '.' {
				alldots = false
			}
			want := byte(0)
			switch clen {
			case 0:
				want = '.'
			case 1:
				want = 'e'
			case 2:
				want = 'r'
			case 3:
				want = 'g'
			case 4:
				want = 'o'
			}
			if clen > 4 || p[k] != want {
				isErgo = false
			}
			clen++
			continue
		}
		if clen > 0 {
			if alldots && clen == 1 {
			} else if alldots && clen == 2 {
				depth--
				if depth < 0 {
					escapes = true
				}
			} else {
				if depth == 0 {
					firstErgo = isErgo && clen == 5
				}
				depth++
			}
		}
		clen, alldots, isErgo = 0, true, true
	}
	return escapes, !escapes && depth >= 1 && firstErgo, !escapes && depth == 0
}

func zzC20PathConfined(max int) {
	rel := zzBytes("rel", max)
	for i := 0; i < len(rel); i++ {
		c := rel[i]
		zzAssume(c == '/' || c == '.' || c == 'e' || c == 'r' || c == 'g' || c == 'o' || c == 'a')
	}
	zzStatAny()
	got, err := validateResultPath("/p", rel)
	if zzIsNative() {
		zzAssert(zzCleanModel(rel) == filepath.Clean(rel), "C20/model: zzCleanModel agrees with filepath.Clean on this input")
	}
	if err != nil {
		zzReach("rejected")
		return
	}
	escapes, inErgo, top := zzPathOracle(rel)
	// the project root itself is a directory (the only fact about the file system used here)
	_, missing, isDir := zzLastStat()
	zzAssume(!top || missing || isDir)
	zzReach("accepted")
	zzAssert(len(rel) == 0 || rel[0] != '/', "C20/bytes: an accepted path is relative")
	zzAssert(!escapes, "C20/bytes: an accepted path never leaves the project root")
	zzAssert(!inErgo, "C20/bytes: an accepted path never points at or into .ergo")
	zzAssert(!top, "C20/bytes: an accepted path names something below the root, not the root itself")
	e2, i2, t2 := zzPathOracle(got)
	zzAssert(!e2 && !i2 && !t2, "C20/bytes: the recorded (cleaned) path is itself confined")
}

func zzC20_PathConfined_L5() { zzC20PathConfined(5) }
func zzC20_PathConfined_L7() { zzC20PathConfined(7) }
func zzC20_PathConfined_L9() { zzC20PathConfined(9) }

// zzC20_CleanModelSelfTest (native only, run by the check after the symbolic units): the static-
// memory port agrees with path/filepath.Clean on EVERY string of at most 7 bytes over the unit's
// alphabet (about 960 000 strings) and on the length-8/9 strings reached by padding a few seeds.
func zzC20_CleanModelSelfTest() {
	alpha := []byte{'/', '.', 'e', 'r', 'g', 'o', 'a'}
	buf := make([]byte, 0, 9)
	bad := 0
	var rec func(d int)
	rec = func(d int) {
		s := string(buf)
		if zzCleanModel(s) != filepath.Clean(s) {
			bad++
			if bad < 5 {
				zzNote("clean model differs on " + strconv.Quote(s) + ": " + strconv.Quote(zzCleanModel(s)) + " vs " + strconv.Quote(filepath.Clean(s)))
			}
		}
		if d == 7 {
			return
		}
		for _, c := range alpha {
			buf = append(buf, c)
			rec(d + 1)
			buf = buf[:len(buf)-1]
		}
	}
	rec(0)
	for _, s := range []string{"./.ergo/a", "a/../../b", "../a/b/..", "/a/../../b", "a//b/./c", ".ergo/../a", "a/b/c/d/e", "./././.a", "..a/..b/.", "a/.../b/.."} {
		if zzCleanModel(s) != filepath.Clean(s) {
			bad++
			zzNote("clean model differs on " + strconv.Quote(s))
		}
	}
	zzAssert(bad == 0, "C20/model: zzCleanModel == filepath.Clean on every enumerated string")
}
