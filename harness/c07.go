package ergo

// C07: the dependency graph stays acyclic, same-kind and between live items.

func zzC07HasCycle(spec string) {
	g := &Graph{}
	zzHavoc("g", g, spec)
	from := zzString("from")
	to := zzString("to")
	zzAssert(hasCycle(g, from, to) == zzHasCycleSpec(g, from, to), "C07/hasCycle: hasCycle == reachability spec")
	zzReach("end")
}

func zzC07_HasCycle_N3() { zzC07HasCycle("3;Meta=0;Results=0;RDeps=0;Tombstones=0;constkeys=Tasks,Deps") }
func zzC07_HasCycle_N4() { zzC07HasCycle("4;Meta=0;Results=0;RDeps=0;Tombstones=0;constkeys=Tasks,Deps") }

// One `sequence A B` / `sequence rm A B` edge, through the public RunSequence.
func zzC07_LinkStep() {
	g, _ := zzC07Store("3;Results=0;RDeps=0;Tombstones=1;constkeys=Tasks,Meta,Deps")
	root := zzWorldInit(g)
	opts := GlobalOptions{StartDir: root, JSON: zzBool("json")}
	a := zzString("A") // sequence A B: B depends on A
	b := zzString("B")
	unlink := zzBool("unlink")
	var err error
	if unlink {
		err = RunSequence([]string{"rm", a, b}, opts)
	} else {
		err = RunSequence([]string{a, b}, opts)
	}
	from, to := b, a
	written := zzWritten()
	if err != nil {
		zzAssert(len(written) == 0, "C07/link: rejected request writes nothing")
		zzReach("link-rejected")
		return
	}
	g2, perr := zzPost()
	zzAssert(perr == nil, "C07/link: store replays after the step")
	if perr != nil {
		return
	}
	zzReach("link-accepted")
	zzAssert(zzEdgesWellFormed(g2), "C07/link: every edge joins two live items of the same kind, no self-edge")
	zzAssert(!zzHasCycle3(g2), "C07/link: no cycle")
	zzAssert(!zzHasCycle3(g2), "C15/step: sequence never closes a dependency cycle, whatever the states of the items")
	for x := range g.Tasks {
		for y := range g.Tasks {
			if x == from && y == to {
				zzAssert(zzEdge(g2, x, y) == !unlink, "C07/link: the requested edge is present after link / absent after rm")
			} else {
				zzAssert(zzEdge(g2, x, y) == zzEdge(g, x, y), "C07/link: no other edge changes")
			}
		}
	}
	_, fromLive := g.Tasks[from]
	_, toLive := g.Tasks[to]
	zzAssert(fromLive && toLive, "C07/link: accepted only between live items")
	if opts.JSON {
		edges := zzOutEdges()
		zzAssert(len(edges) == 1, "C16/link: a successful two-id sequence reports one edge")
		for _, e := range edges {
			zzAssert(zzEdge(g2, e.FromID, e.ToID) == !unlink, "C16/link: the reported edge is what a following read shows (present after link, absent after rm)")
		}
	}
}

// `sequence A B C`: a chain of two edges in one command.
func zzC07_Chain() {
	g, _ := zzC07Store("3;Results=0;RDeps=0;Tombstones=0;constkeys=Tasks,Meta,Deps")
	root := zzWorldInit(g)
	opts := GlobalOptions{StartDir: root}
	err := RunSequence([]string{zzString("A"), zzString("B"), zzString("C")}, opts)
	g2, perr := zzPost()
	zzAssert(perr == nil, "C07/chain: store replays after the command")
	if perr != nil {
		return
	}
	if err == nil {
		zzReach("chain-accepted")
	} else {
		zzReach("chain-rejected")
	}
	// whatever was written (all edges, or - known C10 finding - a prefix), the graph stays well-formed
	zzAssert(zzEdgesWellFormed(g2), "C07/chain: every edge joins two live items of the same kind, no self-edge")
	zzAssert(!zzHasCycle3(g2), "C07/chain: no cycle")
	zzAssert(!zzHasCycle3(g2), "C15/step: a sequence chain never closes a dependency cycle")
}

// deps/rdeps mirroring after a step, on a smaller store (the derived slices are rebuilt by
// replay's post-processing for the whole graph).
func zzC07_Mirror() {
	g, _ := zzC07Store("2;Results=0;RDeps=0;Tombstones=0;constkeys=Tasks,Meta,Deps")
	root := zzWorldInit(g)
	opts := GlobalOptions{StartDir: root}
	var err error
	if zzBool("unlink") {
		err = RunSequence([]string{"rm", zzString("A"), zzString("B")}, opts)
	} else {
		err = RunSequence([]string{zzString("A"), zzString("B")}, opts)
	}
	g2, perr := zzPost()
	if err != nil || perr != nil {
		return
	}
	zzAssert(zzMirror(g2), "C07/mirror: deps and rdeps mirror each other")
	zzReach("end")
}
