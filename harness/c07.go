package ergo

import "strings"

// C07: the dependency graph stays acyclic, same-kind and between live items.

func zzEdge(g *Graph, from, to string) bool {
	_, ok := g.Deps[from][to]
	return ok
}

// zzI1: representation invariant of a replayed store (CoreInv).
func zzAssumeI1(g *Graph) {
	for k, t := range g.Tasks {
		zzAssume(t.ID == k)
		zzAssume(k != "")
		_, tomb := g.Tombstones[k]
		zzAssume(!tomb)
		_, hasMeta := g.Meta[k]
		zzAssume(hasMeta)
		zzAssume(strings.TrimSpace(t.Title) != "") // I8: replay's legacy-title migration has run
	}
	for k := range g.Meta {
		_, ok := g.Tasks[k]
		zzAssume(ok)
	}
	for from, deps := range g.Deps {
		_, tomb := g.Tombstones[from]
		zzAssume(!tomb)
		zzAssume(len(deps) > 0) // applyTombstone / replay never leave an empty inner map... (link creates, unlink may empty)
		for to := range deps {
			_, tomb2 := g.Tombstones[to]
			zzAssume(!tomb2)
		}
	}
}

// zzAssumeI5: every edge joins two live items of the same kind, no self-edge, no cycle
// (acyclicity stated with a symbolic rank function: edge u->v => rank(u) > rank(v)).
func zzAssumeI5(g *Graph, ranks map[string]int) {
	for from, deps := range g.Deps {
		f := g.Tasks[from]
		zzAssume(f != nil)
		for to := range deps {
			t := g.Tasks[to]
			zzAssume(t != nil)
			zzAssume(from != to)
			zzAssume(f.IsEpic == t.IsEpic)
			zzAssume(ranks[from] > ranks[to])
		}
	}
}

// zzI5Holds: the same, checked (cycles up to the number of slots are enumerated explicitly).
func zzEdgesWellFormed(g *Graph) bool {
	ok := true
	for from, deps := range g.Deps {
		f := g.Tasks[from]
		if f == nil {
			ok = false
			continue
		}
		for to := range deps {
			t := g.Tasks[to]
			if t == nil || from == to || f.IsEpic != t.IsEpic {
				ok = false
			}
		}
	}
	return ok
}

func zzHasCycle3(g *Graph) bool {
	cyc := false
	for a := range g.Tasks {
		if zzEdge(g, a, a) {
			cyc = true
		}
		for b := range g.Tasks {
			if !zzEdge(g, a, b) {
				continue
			}
			if zzEdge(g, b, a) {
				cyc = true
			}
			for c := range g.Tasks {
				if zzEdge(g, b, c) && zzEdge(g, c, a) {
					cyc = true
				}
			}
		}
	}
	return cyc
}

func zzMirror(g *Graph) bool {
	ok := true
	for id, t := range g.Tasks {
		for _, d := range t.Deps {
			if !zzEdge(g, id, d) {
				ok = false
			}
			o := g.Tasks[d]
			if o != nil {
				found := false
				for _, r := range o.RDeps {
					if r == id {
						found = true
					}
				}
				if !found {
					ok = false
				}
			}
		}
		for _, r := range t.RDeps {
			if !zzEdge(g, r, id) {
				ok = false
			}
		}
		for d := range g.Deps[id] {
			found := false
			for _, x := range t.Deps {
				if x == d {
					found = true
				}
			}
			if !found {
				ok = false
			}
		}
	}
	return ok
}

// zzReachSpec: target is reachable from start along Deps edges (0 or more), as a bounded
// fixpoint over the edge relation (n rounds suffice for n slots). Independent of isReachable.
func zzReachSpec(g *Graph, start, target string, rounds int) bool {
	if start == target {
		return true
	}
	r := map[string]bool{}
	for i := 0; i < rounds; i++ {
		for x, deps := range g.Deps {
			if x == start || r[x] {
				for y := range deps {
					r[y] = true
				}
			}
		}
	}
	return r[target]
}

// summary of hasCycle used by the step harnesses (hasCycle itself is checked against it in
// zzC07_HasCycle): adding from->to closes a cycle iff from is reachable from to.
func zzHasCycleSpec(g *Graph, from, to string) bool {
	return from == to || zzReachSpec(g, to, from, 4)
}

func zzC07HasCycle(spec string) {
	g := &Graph{}
	zzHavoc("g", g, spec)
	from := zzString("from")
	to := zzString("to")
	zzAssert(hasCycle(g, from, to) == zzHasCycleSpec(g, from, to), "C07/hasCycle: hasCycle == reachability spec")
	zzReach("end")
}

func zzC07_HasCycle_N3() { zzC07HasCycle("3;Tasks=0;Meta=0;RDeps=0;Tombstones=0;constkeys=Deps") }
func zzC07_HasCycle_N4() { zzC07HasCycle("4;Tasks=0;Meta=0;RDeps=0;Tombstones=0;constkeys=Deps") }

func zzC07Store(spec string) (*Graph, map[string]int) {
	g := &Graph{}
	zzHavoc("g", g, spec)
	ranks := map[string]int{}
	zzHavoc("rank", &ranks, spec)
	zzAssumeI1(g)
	zzAssumeI5(g, ranks)
	return g, ranks
}

// One `sequence A B` / `sequence rm A B` edge, through the real writeLinkEvent.
func zzC07_LinkStep() {
	g, _ := zzC07Store("3;Results=0;RDeps=0;Tombstones=1;constkeys=Tasks,Meta,Deps")
	root := zzWorldInit(g)
	opts := GlobalOptions{StartDir: root}
	dir, derr := ergoDir(opts)
	zzAssume(derr == nil)
	from := zzString("from")
	to := zzString("to")
	unlink := zzBool("unlink")
	etype := "link"
	if unlink {
		etype = "unlink"
	}
	err := writeLinkEvent(dir, opts, etype, from, to)
	written := zzWritten()
	if err != nil {
		zzAssert(len(written) == 0, "C07/link: rejected request writes nothing")
		zzReach("link-rejected")
		return
	}
	g2, perr := zzPost()
	zzAssert(perr == nil, "C07/link: store replays after the step")
	if perr != nil {
		return
	}
	zzReach("link-accepted")
	zzAssert(zzEdgesWellFormed(g2), "C07/link: every edge joins two live items of the same kind, no self-edge")
	zzAssert(!zzHasCycle3(g2), "C07/link: no cycle")
	// exactly the requested edge changed
	for a := range g.Tasks {
		for b := range g.Tasks {
			if a == from && b == to {
				zzAssert(zzEdge(g2, a, b) == !unlink, "C07/link: the requested edge is present after link / absent after rm")
			} else {
				zzAssert(zzEdge(g2, a, b) == zzEdge(g, a, b), "C07/link: no other edge changes")
			}
		}
	}
	_, fromLive := g.Tasks[from]
	_, toLive := g.Tasks[to]
	zzAssert(fromLive && toLive, "C07/link: accepted only between live items")
}

// deps/rdeps mirroring after a step, on a smaller store (the derived slices are rebuilt by
// replay's post-processing for the whole graph).
func zzC07_Mirror() {
	g, _ := zzC07Store("2;Results=0;RDeps=0;Tombstones=0;constkeys=Tasks,Meta,Deps")
	root := zzWorldInit(g)
	opts := GlobalOptions{StartDir: root}
	dir, derr := ergoDir(opts)
	zzAssume(derr == nil)
	etype := "link"
	if zzBool("unlink") {
		etype = "unlink"
	}
	err := writeLinkEvent(dir, opts, etype, zzString("from"), zzString("to"))
	g2, perr := zzPost()
	if err != nil || perr != nil {
		return
	}
	zzAssert(zzMirror(g2), "C07/mirror: deps and rdeps mirror each other")
	zzReach("end")
}
