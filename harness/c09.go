package ergo

// C09: prune removes exactly finished work; pruned ids are gone for good.

func zzC09Select(spec string) {
	g := &Graph{}
	zzHavoc("g", g, spec)
	for k, t := range g.Tasks {
		zzAssume(t.ID == k)
		zzAssume(k != "")
	}
	ids := selectPruneTargets(g)
	for k, t := range g.Tasks {
		zzAssert(zzInList(ids, k) == zzPruneSpec(g, t), "C09/select: id selected iff finished task or childless epic")
	}
	for _, id := range ids {
		_, ok := g.Tasks[id]
		zzAssert(ok, "C09/select: only live ids are selected")
	}
	for i := 0; i+1 < len(ids); i++ {
		zzAssert(ids[i] < ids[i+1], "C09/select: ids sorted, no duplicates")
	}
	zzReach("end")
}

func zzC09_Select_N3() { zzC09Select("3;Results=0;Deps=0;RDeps=0;Meta=0;Tombstones=0") }
func zzC09_Select_N4() { zzC09Select("4;Results=0;Deps=0;RDeps=0;Meta=0;Tombstones=0") }

// prune --yes / dry run through the real runPrune.
func zzC09_PruneRun() {
	g, _ := zzC07Store("3;Results=0;RDeps=0;Tombstones=1;constkeys=Tasks,Meta,Deps")
	root := zzWorldInit(g)
	opts := GlobalOptions{StartDir: root, AgentID: zzString("agent")}
	dir, derr := ergoDir(opts)
	zzAssume(derr == nil)
	apply := zzBool("apply")
	plan, err := runPrune(dir, opts, apply)
	written := zzWritten()
	if err != nil {
		zzAssert(len(written) == 0, "C09/prune: failed prune writes nothing")
		return
	}
	// the reported plan is the specified set
	for k, t := range g.Tasks {
		zzAssert(zzInList(plan.PrunedIDs, k) == zzPruneSpec(g, t), "C09/prune: reported ids are exactly the finished tasks and childless epics")
	}
	if !apply {
		zzAssert(len(written) == 0, "C09/prune: dry run writes nothing")
		zzReach("dry-run")
		return
	}
	g2, perr := zzPost()
	zzAssert(perr == nil, "C09/prune: store replays after prune")
	if perr != nil {
		return
	}
	zzReach("applied")
	if zzI4Holds(g) {
		zzAssert(zzI4Holds(g2), "C14/prune: after prune every surviving task's epic reference still names a live epic")
	}
	for k := range g.Tasks {
		zzAssert(zzInList(plan.PrunedIDs, k) == (g2.Tasks[k] == nil), "C16/prune: the reported pruned ids are exactly the items a following read no longer shows")
	}
	for k, t := range g.Tasks {
		post := g2.Tasks[k]
		_, tomb := g2.Tombstones[k]
		if zzPruneSpec(g, t) {
			zzAssert(post == nil && tomb, "C09/prune: selected id is gone and tombstoned")
			_, hasMeta := g2.Meta[k]
			zzAssert(!hasMeta, "C09/prune: selected id has no metadata left")
		} else {
			zzAssert(post != nil && !tomb, "C09/prune: unselected item survives")
			if post != nil {
				zzAssert(post.State == t.State && post.ClaimedBy == t.ClaimedBy && post.EpicID == t.EpicID && post.Title == t.Title && post.Body == t.Body && post.IsEpic == t.IsEpic, "C09/prune: surviving item unchanged")
			}
		}
	}
	for a := range g.Tasks {
		for b := range g.Tasks {
			ta, tb := g.Tasks[a], g.Tasks[b]
			keep := !zzPruneSpec(g, ta) && !zzPruneSpec(g, tb)
			zzAssert(zzEdge(g2, a, b) == (keep && zzEdge(g, a, b)), "C09/prune: edges between survivors kept, edges touching pruned ids dropped")
		}
	}
}

// Loop-head step: once x is tombstoned, no single event of any kind brings it back.
func zzC09_TombstoneStep() {
	g := &Graph{}
	zzHavoc("g", g, "2;Results=0;RDeps=0;Tombstones=2;constkeys=Tasks,Meta,Deps")
	zzAssumeI1(g)
	x := zzString("x")
	_, tomb := g.Tombstones[x]
	zzAssume(tomb)
	var ev Event
	zzHavoc("ev", &ev, "1")
	g2, err := zzReplayFrom(g, []Event{ev})
	if err != nil {
		zzReach("replay-error")
		return
	}
	zzReach("replayed")
	_, inTasks := g2.Tasks[x]
	_, inMeta := g2.Meta[x]
	_, stillTomb := g2.Tombstones[x]
	zzAssert(!inTasks && !inMeta, "C09/tombstone: a pruned id stays absent after any event")
	zzAssert(stillTomb, "C09/tombstone: tombstone is permanent")
	_, outEdges := g2.Deps[x]
	zzAssert(!outEdges, "C09/tombstone: no edge from a pruned id")
	for from := range g2.Deps {
		zzAssert(!zzEdge(g2, from, x), "C09/tombstone: no edge to a pruned id")
	}
}

// Every command given a pruned id fails and writes nothing.
func zzC09PrunedIDRejected(cmd int) {
	g, _ := zzC07Store("2;Results=0;RDeps=0;Tombstones=2;constkeys=Tasks,Meta,Deps")
	root := zzWorldInit(g)
	opts := GlobalOptions{StartDir: root, AgentID: zzString("agent")}
	dir, derr := ergoDir(opts)
	zzAssume(derr == nil)
	x := zzString("x")
	_, tomb := g.Tombstones[x]
	zzAssume(tomb)
	other := zzString("other")
	var err error
	switch cmd {
	case 0:
		err = applySetUpdates(dir, opts, x, zzSetRequest(), opts.AgentID, true)
	case 1:
		err = RunSequence([]string{other, x}, opts) // x depends on other (public entry: internal helpers may be renamed)
	case 2:
		err = RunSequence([]string{x, other}, opts)
	case 3:
		err = RunSequence([]string{"rm", other, x}, opts)
	case 4:
		err = applySetUpdates(dir, opts, x, map[string]string{"result.path": zzString("resultpath"), "result.summary": zzString("summary")}, opts.AgentID, true)
	}
	zzReach("ran")
	zzAssert(err != nil, "C09/pruned-id: command naming a pruned id fails")
	zzAssert(len(zzWritten()) == 0, "C09/pruned-id: and writes nothing")
}

func zzC09_PrunedID_Set()      { zzC09PrunedIDRejected(0) }
func zzC09_PrunedID_LinkFrom() { zzC09PrunedIDRejected(1) }
func zzC09_PrunedID_LinkTo()   { zzC09PrunedIDRejected(2) }
func zzC09_PrunedID_Unlink()   { zzC09PrunedIDRejected(3) }
func zzC09_PrunedID_Result()   { zzC09PrunedIDRejected(4) }

// A new id is never one that was pruned (as long as the tombstone is still in the log).
// The pruned id is pinned to "AAAAAA" so that the native replay can force the same draw
// (crypto/rand pinned to zero bytes encodes to AAAAAA).
func zzC09_NewIDFresh() {
	g, _ := zzC07Store("2;Results=0;RDeps=0;Tombstones=1;constkeys=Tasks,Meta,Deps")
	for k := range g.Tombstones {
		zzAssume(k == "AAAAAA")
	}
	root := zzWorldInit(g)
	zzPinRand()
	opts := GlobalOptions{StartDir: root}
	dir, derr := ergoDir(opts)
	zzAssume(derr == nil)
	out, err := createTask(dir, opts, "", zzBool("isEpic"), zzString("title"), zzString("body"))
	if err != nil {
		return
	}
	zzReach("created")
	_, live := g.Tasks[out.ID]
	_, tomb := g.Tombstones[out.ID]
	zzAssert(!live, "C09/new-id: new id differs from every live id")
	zzAssert(!tomb, "C09/new-id: new id differs from every pruned id")
}
