package ergo

// C06: state machine and claim invariants hold on every path.
//
// The documented transition table below is an independent copy (model.go's design
// comment + docs/spec.md); it is NOT read from validTransitions, so an edit of the map
// shows up as a difference.

// zzOneItemGraph: a store holding one symbolic item (task or epic) plus whatever else the
// bound allows; the step under test touches only that item.
func zzStore(spec string) *Graph {
	g := &Graph{}
	zzHavoc("g", g, spec)
	for k, t := range g.Tasks {
		zzAssume(t.ID == k)
		_, tomb := g.Tombstones[k]
		zzAssume(!tomb)
	}
	for k := range g.Meta {
		_, ok := g.Tasks[k]
		zzAssume(ok)
	}
	for k := range g.Tasks {
		_, ok := g.Meta[k]
		zzAssume(ok)
	}
	return g
}

// One `set` step on a task, decided by the real buildSetEvents and applied by the real
// replay loop from an arbitrary store.
func zzC06_SetStep() {
	g := zzStore("2;Results=0;Deps=0;RDeps=0")
	id := zzString("id")
	agent := zzString("agent")
	task := g.Tasks[id]
	zzAssume(task != nil)
	zzAssume(!task.IsEpic)
	zzAssume(zzSixStates(task.State) && zzClaimRule(task.State, task.ClaimedBy)) // I3 on the pre-state
	oldState := task.State
	oldClaim := task.ClaimedBy
	updates := zzSetRequest()
	_, hasState := updates["state"]
	claimVal, hasClaim := updates["claim"]
	now := zzTime("now")
	zzAssume(!now.IsZero())

	events, rest, err := buildSetEvents(id, task, updates, agent, now, identityBodyResolver)
	if err != nil || len(rest) > 0 {
		if err != nil {
			zzAssert(len(events) == 0, "C06/set: rejected request emits no event")
		}
		zzReach("set-rejected")
		return
	}
	g2, rerr := zzReplayFrom(g, events)
	zzAssert(rerr == nil, "C06/set: emitted events replay without error")
	if rerr != nil {
		return
	}
	post := g2.Tasks[id]
	zzAssert(post != nil, "C06/set: task still exists")
	if post == nil {
		return
	}
	zzReach("set-accepted")
	claimOnly := hasClaim && claimVal != "" && !hasState
	unclaimOnly := hasClaim && claimVal == "" && !hasState
	switch {
	case claimOnly:
		zzAssert(zzSixStates(post.State) && zzClaimRule(post.State, post.ClaimedBy), "C06/set[claim without state]: post-state obeys the claim rule")
		zzAssert(zzDocTransition(oldState, post.State), "C06/set[claim without state]: state change is in the documented table")
	case unclaimOnly:
		zzAssert(zzSixStates(post.State) && zzClaimRule(post.State, post.ClaimedBy), "C06/set[empty claim without state]: post-state obeys the claim rule")
		zzAssert(zzDocTransition(oldState, post.State), "C06/set[empty claim without state]: state change is in the documented table")
	default:
		zzAssert(zzSixStates(post.State) && zzClaimRule(post.State, post.ClaimedBy), "C06/set: post-state obeys the claim rule")
		zzAssert(zzDocTransition(oldState, post.State), "C06/set: state change is in the documented table")
	}
	_ = oldClaim
}

// The table itself: validateTransition agrees with the documented table on every pair of
// known states (and rejects unknown source states).
func zzC06_Table() {
	from := zzString("from")
	to := zzString("to")
	zzAssume(zzSixStates(to))
	err := validateTransition(from, to)
	if zzSixStates(from) {
		zzAssert((err == nil) == zzDocTransition(from, to), "C06/table: validateTransition == documented table")
	} else {
		zzAssert(err != nil || from == to, "C06/table: unknown source state rejected")
	}
	zzAssert((validateClaimInvariant(to, zzString("claimant")) == nil) == zzClaimRule(to, zzString("claimant")), "C06/table: validateClaimInvariant == claim rule")
}
