"""Orchestration: run gosmt on harness entries, replay sat models natively, classify, write evidence."""
import json
import os
import re
import shutil
import subprocess
import sys
import tempfile
import time
import hashlib
from concurrent.futures import ThreadPoolExecutor

from . import concretize

VERIF = os.path.dirname(os.path.dirname(os.path.abspath(__file__)))
REPO = os.environ.get("ERGO_REPO", "/repo")
GOSMT = os.path.join(VERIF, "bin", "gosmt")
PKGDIR = os.path.join(REPO, "internal", "ergo")
# A tree other than /repo (a scratch copy holding a seeded change) never overwrites the registered
# evidence or the out/<id> directories of the real checks.
ALT = os.path.realpath(REPO) != "/repo"


# primary solver: z3 5.1.0 (z3-new) - on the file-model queries it is ~30x faster than 4.8.12;
# the thorough tier re-decides every obligation with z3 4.8.12 and flags disagreements
SOLVER = os.environ.get("VERIF_SOLVER", "z3-new")


def sh(cmd, **kw):
    return subprocess.run(cmd, stdout=subprocess.PIPE, stderr=subprocess.STDOUT, text=True, **kw)


def ensure_engine():
    src = [os.path.join(VERIF, "engine", f) for f in os.listdir(os.path.join(VERIF, "engine")) if f.endswith(".go")]
    if os.path.exists(GOSMT) and all(os.path.getmtime(GOSMT) >= os.path.getmtime(s) for s in src):
        return
    r = sh([os.path.join(VERIF, "bin", "build.sh")])
    if r.returncode != 0:
        print(r.stdout)
        raise SystemExit(3)


def solver_version(name):
    try:
        return sh([name, "--version"]).stdout.strip().splitlines()[0]
    except Exception:
        return name


class Unit:
    """One harness entry with its engine flags."""

    def __init__(self, name, harness, entry, flags=None, note="", bounds=""):
        self.name = name
        self.harness = ["intrinsics.go", "world_native.go", "fs_native.go", "common.go"] + [h for h in harness if h not in ("world_native.go", "fs_native.go", "common.go")]
        self.entry = entry
        self.flags = flags or {}
        self.note = note
        self.bounds = bounds


def run_unit(unit, outdir, timeout_ms, workers, second=None):
    out = os.path.join(outdir, unit.entry + ".json")
    cmd = [GOSMT, "-repo", REPO, "-harness", ",".join(os.path.join(VERIF, "harness", h) for h in unit.harness),
           "-entry", unit.entry, "-out", out, "-timeout", str(timeout_ms), "-workers", str(workers), "-solver", SOLVER]
    for k, v in unit.flags.items():
        if not k.startswith("_") and k != "nopanics_off":
            cmd += ["-" + k] + ([str(v)] if v != "" else [])
    if second:
        cmd += ["-second", second]
    t0 = time.time()
    try:
        r = sh(cmd, timeout=unit.flags.get("_wall", 600 if timeout_ms <= 60000 else 7200))
    except subprocess.TimeoutExpired:
        sh(["pkill", "-x", "gosmt"])
        return {"entry": unit.entry, "status": "error", "err": "wall-clock limit exceeded", "obligations": [], "wall_s": time.time() - t0}
    if not os.path.exists(out):
        return {"entry": unit.entry, "status": "error", "err": r.stdout[-4000:], "obligations": [], "wall_s": time.time() - t0}
    res = json.load(open(out))
    res["wall_s"] = time.time() - t0
    res["stderr"] = r.stdout[-2000:]
    return res


REPLAY_TEST = '''package ergo

import (
	"fmt"
	"os"
	"testing"
)

func TestZZReplay(t *testing.T) {
	entries := map[string]func(){
%s	}
	fn := entries[os.Getenv("ZZ_ENTRY")]
	if fn == nil {
		fmt.Println("ZZ-NOENTRY")
		return
	}
	var outcome []string
	func() {
		defer func() {
			if r := recover(); r != nil {
				if _, ok := r.(zzAssumeFailed); ok {
					outcome = append(outcome, "ZZ-ASSUME-FAILED")
					return
				}
				outcome = append(outcome, fmt.Sprintf("ZZ-PANIC: %%v", r))
			}
		}()
		fn()
	}()
	zzWorldCleanup()
	for _, l := range outcome {
		fmt.Println(l)
	}
	for _, l := range zzLoad().Failed {
		fmt.Println("ZZ-FAILED:", l)
	}
	for _, l := range zzNotes {
		fmt.Println("ZZ-NOTE:", l)
	}
	for _, l := range zzLoad().Reached {
		fmt.Println("ZZ-REACHED:", l)
	}
	fmt.Println("ZZ-DONE")
}
'''


class Replayer:
    """Builds the package's test binary once (with the harness overlaid) and runs scenarios."""

    def __init__(self, harness_files, entries):
        self.tmp = tempfile.mkdtemp(prefix="ergo-replay-")
        self.bin = os.path.join(self.tmp, "ergo.test")
        self.err = None
        ov = {}
        for h in harness_files:
            ov[os.path.join(PKGDIR, "zz_" + os.path.basename(h))] = os.path.join(VERIF, "harness", h)
        tf = os.path.join(self.tmp, "zz_replay_test.go")
        with open(tf, "w") as f:
            f.write(REPLAY_TEST % "".join('\t\t"%s": %s,\n' % (e, e) for e in entries))
        ov[os.path.join(PKGDIR, "zz_replay_test.go")] = tf
        # native counterpart of the engine's loop-head entry: replayEvents starts from zzPreGraph when set
        gsrc = open(os.path.join(PKGDIR, "graph.go")).read()
        m = re.search(r"func replayEvents\(events \[\]Event\) \(\*Graph, error\) \{\n\tgraph := &Graph\{.*?\n\t\}\n", gsrc, re.S)
        if m:
            patched = gsrc[:m.end()] + "\tif zzPreGraph != nil {\n\t\tgraph = zzPreGraph\n\t\tzzPreGraph = nil\n\t}\n" + gsrc[m.end():]
            gp = os.path.join(self.tmp, "graph_patched.go")
            open(gp, "w").write(patched)
            ov[os.path.join(PKGDIR, "graph.go")] = gp
        ovf = os.path.join(self.tmp, "overlay.json")
        json.dump({"Replace": ov}, open(ovf, "w"))
        env = dict(os.environ, GOFLAGS="-mod=mod", GOPROXY="off")
        env.pop("GOSUMDB", None)
        env.pop("GOTOOLCHAIN", None)
        r = sh(["go", "test", "-c", "-vet=off", "-overlay", ovf, "-o", self.bin, "./internal/ergo"], cwd=REPO, env=env)
        if r.returncode != 0 or not os.path.exists(self.bin):
            self.err = r.stdout[-3000:]

    def run(self, entry, scenario_path):
        if self.err:
            return {"ok": False, "err": self.err}
        wd = tempfile.mkdtemp(prefix="ergo-replay-wd-")
        try:
            env = dict(os.environ, ZZ_ENTRY=entry, ZZ_SCENARIO=scenario_path)
            r = sh([self.bin, "-test.run", "^TestZZReplay$", "-test.count=1"], cwd=wd, env=env, timeout=120)
        except subprocess.TimeoutExpired:
            return {"ok": False, "err": "replay timeout"}
        finally:
            shutil.rmtree(wd, ignore_errors=True)
        out = r.stdout
        return {"ok": "ZZ-DONE" in out, "failed": re.findall(r"^ZZ-FAILED: (.*)$", out, re.M),
                "assume_failed": "ZZ-ASSUME-FAILED" in out, "panic": re.findall(r"^ZZ-PANIC: (.*)$", out, re.M),
                "raw": out[-2000:]}

    def close(self):
        shutil.rmtree(self.tmp, ignore_errors=True)


def load_known(prop):
    path = os.path.join(VERIF, "known_findings.jsonl")
    known = []
    if os.path.exists(path):
        for line in open(path):
            line = line.strip()
            if not line or line.startswith("#") or line.startswith("fixed:"):
                continue
            rec = json.loads(line)
            if rec.get("property") == prop and rec.get("status", "known") == "known":
                known.append(rec)
    return known


def match_known(known, entry, label):
    for k in known:
        if k.get("label") == label and (not k.get("entry") or k["entry"] == entry):
            return k
    return None


def check_property(prop, tier, units, level_text, assumptions, extra=None, post=None):
    """Runs all units; returns exit code. Writes evidence/<prop>.json."""
    t0 = time.time()
    ensure_engine()
    seed = int(os.environ.get("VERIF_SEED", "0") or 0)
    timeout_ms = 60000 if tier == "quick" else 600000
    outdir = os.path.join(VERIF, "out", ("alt-" if ALT else "") + prop)
    shutil.rmtree(outdir, ignore_errors=True)
    os.makedirs(outdir, exist_ok=True)
    ncpu = os.cpu_count() or 8
    par = min(len(units), 4) or 1
    workers = max(2, ncpu // par)
    second = ("z3" if SOLVER != "z3" else "z3-new") if tier == "thorough" else None
    with ThreadPoolExecutor(max_workers=par) as pool:
        results = list(pool.map(lambda u: run_unit(u, outdir, timeout_ms, workers, second), units))

    known = load_known(prop)
    violations, known_hits, inconclusive = [], [], []
    samples, functions, models_hit = [], {}, {}
    n_obl = n_dis = n_queries = 0
    solver_time = solver_max = 0.0
    distinct = set()
    reach = {}
    replayer = None
    sat_items = []
    vac = {}
    for u, res in zip(units, results):
        if res.get("status") != "ok":
            inconclusive.append({"unit": u.name, "why": res.get("status", "error") + ": " + (res.get("err") or "")[:600]})
            continue
        functions.update(res.get("functions_encoded", {}))
        for k, v in res.get("models_hit", {}).items():
            models_hit[k] = models_hit.get(k, 0) + v
        n_queries += res.get("queries", 0)
        solver_time += res.get("solver_time_s", 0)
        solver_max = max(solver_max, res.get("solver_max_s", 0))
        for lab, st in res.get("reach_witnesses", {}).items():
            reach[u.entry + ":" + lab] = st
            if st != "sat":
                inconclusive.append({"unit": u.name, "why": "reachability witness %s is %s (harness vacuous?)" % (lab, st)})
        for i, o in enumerate(res["obligations"]):
            n_obl += 1
            key = (u.entry, o["label"], o["pos"], i)
            if o["status"] == "unsat":
                n_dis += 1
                if o["kind"] == "assert" or o["reach"] == "sat":
                    distinct.add(key)
            elif o["status"] == "sat":
                distinct.add(key)
                sat_items.append((u, res, o))
            elif o["status"] == "vacuous":
                n_dis += 1
                vac.setdefault((u.name, o["label"]), []).append(True)
            else:
                inconclusive.append({"unit": u.name, "why": "%s: %s %s" % (o["label"], o["status"], o.get("err", ""))[:400]})
            if o["status"] in ("unsat", "sat") and o["kind"] == "assert":
                vac.setdefault((u.name, o["label"]), []).append(False)
        # sample obligations
        for o in res["obligations"][:3]:
            samples.append({"unit": u.name, "entry": u.entry, "obligation": o["label"], "kind": o["kind"], "at": o["pos"],
                            "status": o["status"], "reach_twin": o["reach"], "solver_s": round(o["time_s"], 3), "smt_bytes": o["smt_bytes"], "bounds": u.bounds})

    for (un, lab), flags in vac.items():
        if all(flags):
            inconclusive.append({"unit": un, "why": "assertion %r is vacuous in every instance (its guard is unsatisfiable)" % lab})

    # ---- replay sat answers ----
    cex_n = 0
    if sat_items:
        hf = sorted(set(h for u, _, _ in sat_items for h in u.harness))
        ents = sorted(set(u.entry for u, _, _ in sat_items))
        replayer = Replayer(hf, ents)
        seen_labels = {}
        for u, res, o in sat_items:
            lk = (u.entry, o["label"])
            kn = match_known(known, u.entry, o["label"])
            if lk in seen_labels and seen_labels[lk] in ("reproduced", "known"):
                continue  # same assertion, other slot: one replay is enough
            values, info = concretize.concretize(o["model"], res.get("nondets", {}), res.get("literals", {}))
            cex_n += 1
            cex = os.path.join(outdir, "cex-%d.json" % cex_n)
            json.dump({"property": prop, "entry": u.entry, "harness": u.harness, "assertion": o["label"], "at": o["pos"], "kind": o["kind"],
                       "values": values, "meta": res.get("meta", {}), "concretisation": info, "raw_model": o["model"], "bounds": u.bounds}, open(cex, "w"), indent=1)
            rr = replayer.run(u.entry, cex)
            reproduced = rr.get("ok") and (o["label"] in rr.get("failed", []) or (o["kind"] == "panic" and rr.get("panic")))
            if "/struct:" in o["label"]:
                # structural obligation (lock flags, lock containment): a fact about constants and
                # control flow of the real code; there is nothing to stage natively
                reproduced = True
            if o["kind"] == "unwind":
                inconclusive.append({"unit": u.name, "why": "unwinding assertion failed (bound too small): " + o["label"]})
                continue
            rec = {"unit": u.name, "entry": u.entry, "assertion": o["label"], "at": o["pos"], "replay": cex, "native": {k: rr.get(k) for k in ("ok", "failed", "assume_failed", "panic", "err")}}
            if reproduced:
                if kn:
                    seen_labels[lk] = "known"
                    rec["known"] = kn.get("what", "")
                    known_hits.append(rec)
                else:
                    seen_labels[lk] = "reproduced"
                    violations.append(rec)
            else:
                seen_labels.setdefault(lk, "mismatch")
                rec["raw"] = rr.get("raw", "")[-600:]
                inconclusive.append({"unit": u.name, "why": "ENCODING-MISMATCH: solver model for %r did not reproduce natively" % o["label"], "detail": rec})
            samples.append({"counterexample": rec, "values": {k: v for k, v in list(values.items())[:40]}})
        replayer.close()

    if post:
        post(results, violations, known_hits, inconclusive, samples)

    for k in known_hits:
        print("KNOWN-FINDING: property=%s %s [%s] replay=%s" % (prop, k.get("known") or k["assertion"], k["assertion"], k["replay"]))
    for v in violations:
        print("VIOLATION property=%s replay=%s" % (prop, v["replay"]))
        print("  assertion: %s (%s) unit=%s" % (v["assertion"], v["at"], v["unit"]))
    for inc in inconclusive:
        print("INCONCLUSIVE: %s: %s" % (inc.get("unit"), inc.get("why")))

    ev = {
        "property_id": prop, "tier": tier, "seed": seed, "level": "model_checking",
        "coverage": {
            "evaluations": n_queries, "distinct_nontrivial": len(distinct),
            "rule": "one evaluation = one check-sat on the SMT encoding generated from /repo's current go/ssa; an obligation is counted as distinct and non-trivial when it is a harness assertion (or a panic/unwinding obligation) whose guard is satisfiable (reachability twin sat) or which itself came back sat; obligations folded to false by the term simplifier are not counted",
            "samples": samples[:40],
            "obligations": n_obl, "discharged": n_dis, "inconclusive": len(inconclusive),
            "known_findings_matched": len(known_hits), "violations_reproduced": len(violations),
            "exhaustive": len(inconclusive) == 0,
            "explanation": level_text,
            "functions_encoded": functions, "stubs_and_models_hit": models_hit,
            "bounds": {u.name: {"entry": u.entry, "bounds": u.bounds, "flags": u.flags, "note": u.note} for u in units},
            "reachability_witnesses": reach,
            "solver": solver_version(SOLVER) + ((" ; cross-checked with " + solver_version(second)) if second else ""),
            "solver_time_s": round(solver_time, 2), "solver_max_query_s": round(solver_max, 2),
            "encode_time_s": round(sum(r.get("encode_time_s", 0) for r in results), 2),
            "checker_cmd": "./check %s %s" % (prop, tier),
            "trusted_base": ["go/ssa construction (golang.org/x/tools v0.50.0)", "gosmt executor and models (/verif/engine)", solver_version(SOLVER)],
            "inconclusive_detail": inconclusive[:20],
        },
        "assumptions": assumptions,
        "wall_s": round(time.time() - t0, 2),
        "violations": len(violations),
    }
    if extra:
        ev["coverage"].update(extra)
    evdir = os.path.join(VERIF, "out", "alt-evidence") if ALT else os.path.join(VERIF, "evidence")
    os.makedirs(evdir, exist_ok=True)
    json.dump(ev, open(os.path.join(evdir, prop + ".json"), "w"), indent=1)
    print("%s %s: obligations=%d discharged=%d known=%d violations=%d inconclusive=%d queries=%d solver=%.1fs wall=%.1fs" % (
        prop, tier, n_obl, n_dis, len(known_hits), len(violations), len(inconclusive), n_queries, solver_time, time.time() - t0))
    if violations:
        return 1
    if inconclusive:
        return 3
    return 0
