"""Turn a solver model (atom codes, time instants) into concrete strings for native replay.

Atoms are Int codes. Literal codes come from the engine's literal table; every other
code gets a fresh string placed in the order-gap between its literal neighbours so
that the model's string order is preserved.  Time instants are rank-compressed and
formatted as RFC3339Nano (the format ergo itself uses), and atoms that the model says
are formatted times (timefmt / parseok+parseval) are given exactly that spelling.
"""
import bisect
import datetime
import re

EPOCH = datetime.datetime(2024, 1, 1, tzinfo=datetime.timezone.utc)


def fmt_time(rank):
    if rank == 0:
        return "0001-01-01T00:00:00Z"
    return (EPOCH + datetime.timedelta(seconds=rank)).strftime("%Y-%m-%dT%H:%M:%SZ")


def parse_uf_key(k):
    m = re.match(r"^@([a-z0-9_]+)\((.*)\)$", k)
    if not m:
        return None, None
    args = [a for a in m.group(2).split(",")] if m.group(2) != "" else []
    return m.group(1), args


def concretize(model, nondets, literals):
    """model: name->value string; nondets: name->kind; literals: string->code.
    Returns (values: name->string, info)"""
    code2lit = {int(c): s for s, c in literals.items()}
    lit_codes = sorted(code2lit)
    info = {"fresh_atoms": {}, "problems": []}

    # ---- times ----
    tvals = set()
    for n, k in nondets.items():
        if k == "time" and n in model:
            tvals.add(int(model[n]))
    ufs = []
    for k, v in model.items():
        name, args = parse_uf_key(k)
        if name:
            ufs.append((name, args, v))
            if name == "timefmt":
                tvals.add(int(args[0]))
            if name == "parseval":
                tvals.add(int(v))
    tvals.discard(0)
    trank = {0: 0}
    for i, t in enumerate(sorted(tvals)):
        trank[t] = i + 1

    # ---- atoms ----
    forced = {}  # code -> string
    parseok = {}
    for name, args, v in ufs:
        if name == "parseok":
            parseok[int(args[0])] = (v == "true")
    for name, args, v in ufs:
        if name == "timefmt":
            c = int(v)
            if c in code2lit:
                info["problems"].append("timefmt result equals literal %r" % code2lit[c])
            forced[c] = fmt_time(trank[int(args[0])])
    for name, args, v in ufs:
        if name == "parseval":
            c = int(args[0])
            if parseok.get(c) and c not in forced and c not in code2lit:
                forced[c] = fmt_time(trank.get(int(v), 0))
    for c, okv in parseok.items():
        if okv and c not in forced and c not in code2lit:
            forced[c] = fmt_time(1)  # parses, value unconstrained by the query

    codes = set(forced)
    for n, k in nondets.items():
        if k == "atom" and n in model:
            codes.add(int(model[n]))
    for name, args, v in ufs:
        if name in ("trim", "cat", "toupper", "tolower", "quote", "trimprefix", "trimsuffix", "replaceall", "strlen", "containsany", "contains", "hasprefix", "hassuffix", "cleanpath", "isabs", "pathjoin", "vislen"):
            for a in (args[:1] if name in ("vislen", "strlen") else args):
                try:
                    codes.add(int(a))
                except ValueError:
                    pass
            if name in ("vislen", "strlen", "contains", "containsany", "hasprefix", "hassuffix", "isabs"):
                continue
            try:
                codes.add(int(v))
            except ValueError:
                pass

    trim = {}
    for name, args, v in ufs:
        if name == "trim":
            trim[int(args[0])] = int(v)

    def fresh_for(code, rank_in_gap):
        i = bisect.bisect_left(lit_codes, code)
        lo = code2lit[lit_codes[i - 1]] if i > 0 else ""
        hi = code2lit[lit_codes[i]] if i < len(lit_codes) else None
        s = lo + "\x01" + "%c%c" % (0x41 + rank_in_gap // 26, 0x41 + rank_in_gap % 26) if lo != "" else None
        if lo == "":
            # below the first non-empty literal: only control characters fit
            s = "\x01" + "%c%c" % (0x41 + rank_in_gap // 26, 0x41 + rank_in_gap % 26)
        if hi is not None and not (s < hi):
            info["problems"].append("no room for a fresh string between %r and %r" % (lo, hi))
        if not (s > lo):
            info["problems"].append("fresh string not above %r" % lo)
        return s

    strs = {}
    gaps = {}
    for c in sorted(codes):
        if c in code2lit:
            strs[c] = code2lit[c]
        elif c in forced:
            strs[c] = forced[c]
        else:
            i = bisect.bisect_left(lit_codes, c)
            r = gaps.get(i, 0)
            gaps[i] = r + 1
            strs[c] = fresh_for(c, r)
            info["fresh_atoms"][str(c)] = strs[c]
    # honour string-predicate facts of the model on fresh atoms
    for name, args, v in ufs:
        try:
            c = int(args[0])
        except (ValueError, IndexError):
            continue
        if c in code2lit or c in forced or c not in strs:
            continue
        if name in ("containsany", "contains", "hasprefix", "hassuffix") and v == "true" and len(args) == 2:
            try:
                lit = code2lit.get(int(args[1]))
            except ValueError:
                lit = None
            if not lit:
                continue
            piece = lit[0] if name == "containsany" else lit
            if name == "hasprefix":
                strs[c] = piece + strs[c]
            elif name == "hassuffix":
                strs[c] = strs[c] + piece
            else:
                core = strs[c].strip(" ")
                strs[c] = strs[c].replace(core, core + piece + "z", 1) if core else strs[c] + piece + "z"
    # replaceall(x, old, new) = y with y != x: x must contain `old`
    for name, args, v in ufs:
        if name == "replaceall" and len(args) == 3:
            try:
                a, o, b = int(args[0]), int(args[1]), int(v)
            except ValueError:
                continue
            if a != b and a in strs and a not in code2lit and a not in forced and o in code2lit and code2lit[o] not in strs[a]:
                strs[a] = strs[a] + code2lit[o] + "z"
    # path facts: isabs(x) => leading "/"; cleanpath(x) = y with y != x => x := "./" + y (an
    # unclean spelling of the clean path y)
    for name, args, v in ufs:
        if name == "isabs" and v == "true":
            try:
                c = int(args[0])
            except ValueError:
                continue
            if c in strs and c not in code2lit and c not in forced and not strs[c].startswith("/"):
                strs[c] = "/" + strs[c]
    for name, args, v in ufs:
        if name == "cleanpath":
            try:
                a, b = int(args[0]), int(v)
            except ValueError:
                continue
            if a != b and a in strs and b in strs and a not in code2lit and a not in forced:
                strs[a] = "./" + strs[b]
    for name, args, v in ufs:
        if name == "strlen":
            try:
                c, n = int(args[0]), int(v)
            except ValueError:
                continue
            if c in strs and c not in code2lit and c not in forced and len(strs[c].encode()) < n <= (1 << 20):
                core = strs[c].strip(" ")
                pad = "x" * (n - len(strs[c].encode()))
                strs[c] = strs[c].replace(core, core + pad, 1) if core else strs[c] + pad

    # display-width facts (width abstraction units): vislen(x) = n, optionally with strlen(x) = m
    vis, slen = {}, {}
    for name, args, v in ufs:
        try:
            if name == "vislen":
                vis[int(args[0])] = int(v)
            elif name == "strlen":
                slen[int(args[0])] = int(v)
        except ValueError:
            pass
    for k, (c, n) in enumerate(sorted(vis.items())):
        if c in code2lit or c in forced or c not in strs or n > (1 << 12):
            continue
        tag = "%c%c" % (0x41 + k // 26, 0x41 + k % 26)
        if slen.get(c) == n:
            # printable ASCII, byte length = width
            strs[c] = ("Z" + tag + "x" * (n - 3)) if n >= 3 else tag[:n]
        else:
            # zero-width unique prefix (control characters), then n columns
            strs[c] = "\x01" + "%c%c" % (2 + k // 20, 2 + k % 20) + "x" * n
        info["fresh_atoms"][str(c)] = strs[c]

    # honour trim facts where the model says trimming changes the string
    ws = 0
    for c, t in trim.items():
        if c in code2lit or c in forced:
            continue
        if t == c:
            continue
        if t == 0:
            ws += 1
            strs[c] = " " * ws
        elif t in strs:
            strs[c] = " " + strs[t] + " "

    # case-mapping facts: toupper(x) = y  =>  x := lower-case spelling of y (and v.v.), derived
    # back-to-front through trim chains
    for _pass in range(3):
        for name, args, v in ufs:
            if name not in ("toupper", "tolower"):
                continue
            try:
                a, b = int(args[0]), int(v)
            except ValueError:
                continue
            if a == b or a in code2lit or a in forced or b not in strs:
                continue
            want = strs[b].lower() if name == "toupper" else strs[b].upper()
            if (want.upper() if name == "toupper" else want.lower()) == strs[b]:
                strs[a] = want
        for c, t in trim.items():
            if c in code2lit or c in forced or t == c:
                continue
            if t != 0 and t in strs:
                strs[c] = " " + strs[t] + " "

    # distinct codes must stay distinct strings: two texts with the same trimmed form differ in
    # their surrounding white space
    seen_s = {}
    for c in sorted(strs):
        st = strs[c]
        if c in code2lit or c in forced:
            seen_s.setdefault(st, c)
            continue
        k = 0
        while st in seen_s and seen_s[st] != c:
            k += 1
            st = strs[c] + " " * k if strs[c].strip(" ") != "" else " " * (len(strs[c]) + k)
        if st != strs[c]:
            # only safe when trailing blanks do not change what the model says about the string
            if c in trim and trim[c] != c:
                strs[c] = st
            else:
                info["problems"].append("two codes concretise to the same string %r" % strs[c])
        seen_s.setdefault(strs[c], c)

    values = {}
    for n, k in nondets.items():
        if n not in model:
            continue
        v = model[n]
        if k == "atom":
            values[n] = strs[int(v)]
        elif k == "time":
            values[n] = str(trank.get(int(v), 0))
        elif k == "nat":
            values[n] = str(int(v))
        elif k == "bool":
            values[n] = v
        elif k in ("int", "byte"):
            iv = int(v)
            if k == "int" and iv >= 1 << 63:
                iv -= 1 << 64
            values[n] = str(iv)
    # byte strings: <name>.len + <name>.b<i>
    bnames = set(n[:-4] for n, k in nondets.items() if n.endswith(".len") and (n[:-4] + ".b0") in nondets)
    for bn in bnames:
        ln = int(values.get(bn + ".len", "0"))
        bs = bytes(int(values.get("%s.b%d" % (bn, i), "0")) & 0xFF for i in range(ln))
        values[bn] = bs.decode("latin-1")
        values[bn + ".hex"] = bs.hex()
    return values, info
