"""Registry: property id -> harness units per tier."""
from .runner import Unit

COMMON_ASSUMPTIONS = [
    "go/ssa (x/tools v0.50.0) faithfully represents the Go source; the gosmt executor implements the SSA semantics for the instruction subset it accepts and aborts (inconclusive) on anything else",
    "strings are compared as opaque atoms (Int codes, order-preserving for program literals); string functions on atoms (TrimSpace, concatenation, Sprintf, ...) are uninterpreted functions with the axioms of DESIGN 3.1",
    "map iteration visits the slots of a symbolic collection in index order (slots are symmetric); entries inserted during a run are visited last",
    "append re-uses the backing array iff len+n <= cap; a reallocation gets the engine's physical capacity (programs must not depend on growth policy)",
]

PROPS = {}


def reg(pid, units, level_text, assumptions, post=None):
    PROPS[pid] = {"units": units, "level_text": level_text, "assumptions": COMMON_ASSUMPTIONS + assumptions, "post": post}


# ---------------------------------------------------------------- C08
def c08_units(tier):
    n = "3" if tier == "quick" else "4"
    return [
        Unit("ready-blocked-vs-spec", ["c08.go"], "zzC08_ReadyBlocked_N" + n, {"loop": 20}, bounds="N=%s items, any states/claims/edges/epic membership, no invariant beyond Tasks[k].ID=k" % n),
        Unit("scoped-ready", ["c08.go"], "zzC08_ScopedReady_N4", {"loop": 24, "only": "C08/"}, bounds="N=4 items in any states / edges / epic membership, ANY --epic value: what list --ready [--epic E] shows and what claim [--epic E] chooses from (real listTasks / readyTasks) = the items in scope for which the ready predicate holds"),
        Unit("claim-oldest", HSCMD, "zzCmd_ClaimOldest", dict(STUB, only="C08/"), bounds="store of 3 items; bare `claim` with any --epic filter through the real RunClaimOldestReady / readyTasks: the chosen task is ready, in scope, and no other ready task in scope is older (ties by id)"),
    ]


reg("C08", c08_units,
    "bounded symbolic model checking of ergo's own SSA: isReady/isBlocked/readyTasks/list and claim selection are executed symbolically over an N-slot symbolic graph and compared with the manual's sentences written as formulas; unsat = holds for every graph within the bound",
    ["graph slots: N items (quick 3, thorough 4); beyond that outside the claim"])


# ---------------------------------------------------------------- C06
def c06_units(tier):
    return [
        Unit("transition-table", ["c06.go"], "zzC06_Table", {}, bounds="all (from,to) state atoms; any claimant"),
        Unit("set-step", ["c06.go"], "zzC06_SetStep", {"loop": 12}, bounds="store of 2 items; one task in any (state,claimant) obeying the claim rule; every subset of {title,body,epic,claim,state} with arbitrary values; agent present or not"),
    ] + cmd_units("C06/", ["set-json", "set-flags", "set-body-stdin", "claim-id", "new-task-json", "new-task-flags", "new-task-body-stdin", "new-epic-json"])


reg("C06", c06_units,
    "bounded symbolic model checking: one `set`/`claim`/`new` step decided by the real buildSetEvents (and callers) from an arbitrary store satisfying the claim rule, applied by the real replay loop; post-state checked against an independent copy of the documented transition table and the claim rule. One inductive step covers command sequences of any length.",
    ["pre-state invariant I3 (six states + claim rule) is what the step itself re-establishes", "json.Marshal/Unmarshal modelled as key->atom boxes keyed by the struct tags read from the current source"])


# ---------------------------------------------------------------- C07
WORLD = ["world_native.go"]


def c07_units(tier):
    n = "3" if tier == "quick" else "4"
    stub = {"loop": 32, "rec": 4, "stubs": "hasCycle=zzHasCycleSpec", "only": "C07/"}
    return [
        Unit("hasCycle-vs-spec", WORLD + ["c07.go"], "zzC07_HasCycle_N" + n, {"loop": 24, "rec": int(n) + 1}, bounds="Deps over %s slot ids, any edge relation (cyclic or not), from/to arbitrary ids; recursion unwound to depth %s+1 with unwinding assertions" % (n, n)),
        Unit("link-step", WORLD + ["c07.go"], "zzC07_LinkStep", stub, note="hasCycle replaced by its reachability summary (checked by hasCycle-vs-spec)", bounds="store of 3 items (any kinds/states), edges = any acyclic same-kind relation between live items (symbolic rank witness), 1 tombstone; request sequence|sequence rm with arbitrary from/to ids (live, pruned, unknown, equal)"),
        Unit("chain", WORLD + ["c07.go"], "zzC07_Chain", stub, note="hasCycle replaced by its summary", bounds="store of 3 items, no tombstone; sequence A B C with arbitrary ids (two edges in one command)"),
        Unit("mirror", WORLD + ["c07.go"], "zzC07_Mirror", stub, note="hasCycle replaced by its summary", bounds="store of 2 items; one link/unlink step; deps/rdeps slices rebuilt by the real replay post-processing"),
    ]


reg("C07", c07_units,
    "bounded symbolic model checking: one sequence/sequence-rm edge through the real writeLinkEvent closure (validateDepSelf, validateDepKinds, hasCycle/isReachable) from an arbitrary well-formed store, applied by the real replay loop; the post-graph is checked for well-formed edges, absence of cycles up to the slot count, deps/rdeps mirroring and exactly-one-edge change.",
    ["L1 world stubs: loadGraph/appendEvents/getEventsPath replaced by a symbolic store (engine/world.go); withLock executed for real over syscall stubs",
     "slot ids are the constants ID0..IDn (sound by symmetry: ids are only compared, and any n distinct ids map order-preservingly onto them)"])


# ---------------------------------------------------------------- C09
def c09_units(tier):
    n = "3" if tier == "quick" else "4"
    stub = {"loop": 32, "rec": 4, "stubs": "hasCycle=zzHasCycleSpec"}
    hs = ["c06.go", "c07.go", "c09.go"]
    return [
        Unit("select-vs-spec", hs, "zzC09_Select_N" + n, {"loop": 24}, bounds="N=%s items in any states / kinds / epic membership (incl. dangling)" % n),
        Unit("prune-run", hs, "zzC09_PruneRun", stub, bounds="store of 3 items + 1 tombstone, acyclic well-formed edges; prune with and without --yes"),
        Unit("tombstone-step", hs, "zzC09_TombstoneStep", stub, bounds="store of 2 items, 2 tombstones; ONE arbitrary event (any type string, any ids, malformed or not) applied by the real replay loop body"),
    ] + [
        Unit("pruned-id-" + c.lower(), hs, "zzC09_PrunedID_" + c, stub, bounds="store of 2 items, 2 tombstones; the command names a pruned id; all other arguments arbitrary")
        for c in ("Set", "LinkFrom", "LinkTo", "Unlink", "Result")
    ] + [
        Unit("new-id-fresh", hs, "zzC09_NewIDFresh", stub, note="CUT: newShortID's retry loop assumed to succeed within 2 draws", bounds="store of 2 items and one pruned id; the random draw is a free symbolic string"),
    ]


reg("C09", c09_units,
    "bounded symbolic model checking of selectPruneTargets against the statement's set definition, of runPrune (both modes) through the real lock/load/append path over a symbolic store, of the replay loop body for one arbitrary event from a store with tombstones (inductive step: pruned ids stay gone), and of every mutating entry point given a pruned id.",
    ["L1 world stubs (symbolic store) as in C07; crypto/rand modelled as an arbitrary string per draw (shortID stub)"])


# ---------------------------------------------------------------- C14 / C15
HS14 = ["c06.go", "c07.go", "c09.go", "c14.go"]
STUB = {"loop": 32, "rec": 4, "stubs": "hasCycle=zzHasCycleSpec"}


def c14_units(tier):
    return [
        Unit("new-task-epic", HS14, "zzC14_NewTaskEpic", STUB, bounds="store of 3 items + 1 pruned id obeying I1-I5; epic argument any id (live epic, task in epic, root task, unknown, pruned, empty); task or epic creation"),
        Unit("set-epic", HS14, "zzC14_SetEpic", STUB, bounds="same store; set with an epic field (any id) plus any other fields on any id"),
        Unit("compact-keeps-references", ["c06.go", "c07.go", "c14.go", "c05.go"], "zzC05_Compact_N2", {"loop": 40, "rec": 4, "only": "C14/"}, bounds="store of 2 items (+1 pruned id) whose epic references are valid; compacted by the real compactEvents and replayed"),
        Unit("prune-keeps-references", HS14, "zzC09_PruneRun", dict(STUB, only="C14/"), bounds="store of 3 items + 1 tombstone whose epic references are valid; prune --yes through the real selectPruneTargets / runPrune and replay"),
    ]


reg("C14", c14_units,
    "bounded symbolic model checking of the two entry points that assign an epic (createTask, applySetUpdates/buildSetEvents) from an arbitrary store satisfying I1-I5, post-state read back through the real replay, of prune --yes and of compact (every surviving task's epic is still live afterwards); the plan side is covered by C11.",
    ["L1 world stubs (symbolic store) as in C07"])


def c15_units(tier):
    n = "3" if tier == "quick" else "4"
    return [
        Unit("progress-acyclic", HS14, "zzC15_ProgressAcyclic_N4", {"loop": 24}, bounds="N=4 items obeying I1-I5 whose effective waits-for relation has a rank function; isReady/areEpicDepsComplete/isEpicComplete real"),
        Unit("progress-any", HS14, "zzC15_ProgressAny_N4", {"loop": 24}, bounds="N=4 items obeying only what ergo enforces (I1-I5: cycles checked per kind)"),
        Unit("step-sequence", HS14, "zzC07_LinkStep", dict(STUB, only="C15/"), bounds="store of 3 items in ANY states (finished, reopened, claimed ...), acyclic edges; one sequence edge"),
        Unit("step-chain", HS14, "zzC07_Chain", dict(STUB, only="C15/"), bounds="store of 3 items; sequence A B C"),
    ]


reg("C15", c15_units,
    "bounded symbolic model checking of the observable formulation (todo work, nothing held => something ready) over every 4-item store ergo's own checks admit; split into stores whose combined waits-for relation is acyclic (must hold) and the rest (the cross-level cycle ergo admits today).",
    ["N=4 is the smallest universe exhibiting a cross-level cycle (2 tasks + 2 epics)"])


# ---------------------------------------------------------------- command-level units (C10, C16, C06 share them)
HSCMD = ["c06.go", "c07.go", "c08.go", "c09.go", "c14.go", "c10.go"]
CMD_ENTRIES = [
    ("set-json", "zzCmd_Set_JSON"), ("set-flags", "zzCmd_Set_Flags"), ("set-body-stdin", "zzCmd_Set_BodyStdin"),
    ("claim-id", "zzCmd_Claim"), ("claim-oldest", "zzCmd_ClaimOldest"),
    ("new-task-json", "zzCmd_NewTask_JSON"), ("new-task-flags", "zzCmd_NewTask_Flags"), ("new-task-body-stdin", "zzCmd_NewTask_BodyStdin"),
    ("new-epic-json", "zzCmd_NewEpic_JSON"), ("new-epic-flags", "zzCmd_NewEpic_Flags"), ("new-epic-body-stdin", "zzCmd_NewEpic_BodyStdin"),
    ("sequence", "zzCmd_Sequence"), ("prune", "zzCmd_Prune"),
]
CMD_BOUNDS = "store of 2 items + 1 pruned id obeying I1-I5; every GlobalOptions field symbolic (flags, --json, --quiet, --agent), stdin document with every field present/absent, parse error or not; lock busy or free at every attempt"


def cmd_units(prefixes, names=None):
    out = []
    for n, e in CMD_ENTRIES:
        if names and n not in names:
            continue
        f = dict(STUB)
        f["only"] = prefixes
        out.append(Unit(n, HSCMD, e, f, bounds=CMD_BOUNDS))
    return out


def c10_units(tier):
    us = cmd_units("C10/")
    us.append(Unit("plan-fails", ["c10.go", "c11.go"], "zzC10_PlanFails_A2", {"loop": 40, "rec": 3, "stubs": "hasCycle=zzHasCycleSpec,hasPlanCycle=zzPlanCycleSpec", "only": "C10/"},
                   note="hasCycle / hasPlanCycle replaced by their summaries (checked under C07 / C11)",
                   bounds="store of 1 item; plan of <=2 tasks with <=2 after entries each (repeated and redundant entries included), every field present/absent, parse error or not, lock busy or free: RunPlan returning an error has handed nothing to the log"))
    return us


reg("C10", c10_units,
    "bounded symbolic model checking of every mutating RunX entry point (all input modes) over a symbolic store: on every path that returns an error, the list of events handed to appendEvents/replace is empty; on success only the addressed item changes. One process, no crash.",
    ["L1 world stubs (symbolic store; ParseTaskInput yields an arbitrary TaskInput or a parse error; validateResultPath / captureResultEvidence succeed or fail symbolically)", "plan: the plan-fails unit here plus C11; compact: C05"])

def c16_units(tier):
    us = cmd_units("C16/")
    us.append(Unit("sequence-reply-n3", WORLD + ["c07.go"], "zzC07_LinkStep", {"loop": 32, "rec": 4, "stubs": "hasCycle=zzHasCycleSpec", "only": "C16/"},
                   note="hasCycle replaced by its reachability summary (checked under C07)",
                   bounds="store of 3 items, any acyclic same-kind edges, 1 tombstone; sequence | sequence rm with arbitrary ids and --json: the edge in the reply is what the post-state read shows"))
    us.append(Unit("prune-reply-n3", ["c06.go", "c07.go", "c09.go"], "zzC09_PruneRun", {"loop": 32, "rec": 4, "stubs": "hasCycle=zzHasCycleSpec", "only": "C16/"},
                   bounds="store of 3 items + 1 tombstone; prune --yes through the real runPrune: the pruned ids it reports (the value RunPrune prints) are exactly the items missing from the post-state read"))
    return us


reg("C16", c16_units,
    "bounded symbolic model checking of the --json discipline: every stdout/stderr write of the real RunX functions is an output event; on success with --json exactly one JSON value and no text reaches stdout, on failure at most one JSON value and (with --json) no text.",
    ["output calls (fmt.Print*, writeJSON) are modelled as events; the cmd layer (exitErr -> stderr, exit code) is outside the claim", "truth of the reported fields: see DESIGN (new-task reply vs post-state)"])


# ---------------------------------------------------------------- C05
def c05_units(tier):
    hs = ["c06.go", "c07.go", "c14.go", "c05.go"]
    us = [
        Unit("compact-roundtrip", hs, "zzC05_Compact_N2", {"loop": 40, "rec": 4}, bounds="store of 2 items (any kinds), 1 result per task, 1 pruned id, any well-formed edges, Meta obeying I6/I7 (timestamps consistent with a monotonic clock)"),
        Unit("claim-order", hs, "zzC05_ClaimOrder", {"loop": 40, "rec": 4}, bounds="store of 2 items; readyTasks before/after for an arbitrary epic filter"),
    ]
    if tier == "thorough":
        us.append(Unit("compact-roundtrip-r2", hs, "zzC05_Compact_N2R2", {"loop": 64, "rec": 4, "_wall": 3000}, bounds="store of 2 items, 2 results per task (3 items did not finish: the edge maps rebuilt by replay exceed the unrolling bound of 96, reported as such by the unwinding obligation, so N=3 is not registered)"))
    return us


reg("C05", c05_units,
    "bounded symbolic model checking: the real compactEvents is run on an arbitrary store satisfying the invariants replay establishes (I1-I7), its output is replayed by the real replayEvents from an empty graph, and every observable of every item (state, claimant, claim time, title, body, epic, kind, uuid, created/updated, results with evidence in order, ready/blocked, edges, claim order) is compared.",
    ["time.Format/Parse(RFC3339Nano) modelled as an injective UF pair with parse(format(t)) = t", "pre-state invariants I6/I7 (Meta consistent with a CLI-written log under a monotonic clock) are assumed; legacy-format and torn-tail logs are outside this unit",
     "json boxes keyed by the struct tags of the current source"])


# ---------------------------------------------------------------- C11
def c11_units(tier):
    hs = ["c10.go", "c11.go"]
    us = [
        Unit("validate-vs-spec", hs, "zzC11_Validate_T2", {"loop": 40, "rec": 3}, bounds="plan documents with <=2 tasks, <=2 after entries each, every title/body present or absent, blank or not, equal or distinct; hasPlanCycle's recursion unwound to depth 3 with unwinding assertions"),
        Unit("run-plan", hs, "zzC11_Run_T2", {"loop": 40, "rec": 3, "stubs": "hasCycle=zzHasCycleSpec,hasPlanCycle=zzPlanCycleSpec", "only": "C11/,C16/"}, note="hasCycle / hasPlanCycle replaced by their summaries (checked by C07 hasCycle-vs-spec and by validate-vs-spec)", bounds="store of 2 items + 1 pruned id; plan of <=2 tasks with <=1 after entry each; parse error or not; lock busy or free"),
    ]
    us.append(Unit("validate-vs-spec-3", hs, "zzC11_Validate_T3A1", {"loop": 40, "rec": 4}, bounds="plan documents with <=3 tasks, <=1 after entry each (cycles of length 3 included); 3 tasks with 2 after entries each did not finish in an hour and is not registered"))
    us.append(Unit("plan-all-or-nothing", ["c10.go", "c11.go", "c03.go"], "zzC04_PlanAtomic", {"loop": 40, "rec": 3, "stubs": "hasCycle=zzHasCycleSpec,hasPlanCycle=zzPlanCycleSpec,sortedKeys=zzSortedKeysCut", "only": "C11/"}, note="file model with symbolic crash point (see C03/C04)", bounds="clean log of <=1 event; plan of 1 task; killed at any effect index; stale temp file possible"))
    us.append(Unit("plan-reply-fan3", ["c10.go", "c11.go", "c03.go"], "zzC11_Run_Fan3", {"loop": 90, "rec": 3, "stubs": "hasCycle=zzHasCycleSpec,hasPlanCycle=zzPlanCycleSpec,sortedKeys=zzSortedKeysCut", "only": "C11/,C16/"}, note="sortedKeys (display-only Deps/RDeps slices) CUT as in the file-model units", bounds="store of 1 item; plan of exactly 3 tasks where only the last has after entries (<=3, repeats in any order included); the reply's edge list against the replayed store; loops unwound to 90 with unwinding assertions"))
    if tier == "thorough":
        us.append(Unit("run-plan-a2", hs, "zzC11_Run_T2A2", {"loop": 40, "rec": 3, "stubs": "hasCycle=zzHasCycleSpec,hasPlanCycle=zzPlanCycleSpec", "only": "C11/,C16/", "_wall": 7000}, bounds="plan of <=2 tasks with <=2 after entries each"))
    return us


reg("C11", c11_units,
    "bounded symbolic model checking: PlanInput.Validate (with the real hasPlanCycle) is compared with the statement's validity written as a formula; RunPlan is run through the world on an arbitrary store and the replayed result is compared with the document (one epic, one todo unclaimed task per entry inside it, identical titles/bodies, edges exactly the after relation, nothing old altered) and a rejected document writes nothing.",
    ["L1 world stubs; ParsePlanInput yields an arbitrary PlanInput or a parse error (json decoding itself is assumed)", "crash atomicity of the rewrite is C03/C04's subject"])


# ---------------------------------------------------------------- C03 / C04 (file model, crash = symbolic effect index)
HSFS = ["c10.go", "c11.go", "c03.go"]
FSFLAGS = {"loop": 40, "rec": 3, "stubs": "hasCycle=zzHasCycleSpec,hasPlanCycle=zzPlanCycleSpec,sortedKeys=zzSortedKeysCut"}
FS_ASSUME = [
    "L0 file model (engine/world_fs.go): a file is a sequence of line objects {blank, parses, event, complete}; write(2)/rename(2)/open(O_TRUNC|O_APPEND) are atomic effects indexed in program order; a process dies at one symbolic effect index, its last write may land a strict prefix of the line (unparsable) or everything but the newline; process death releases the flock (A1, A3, A5 of DESIGN 3.4)",
    "bufio.Scanner yields the file's lines as of one instant (A2); lines longer than 10 MiB are outside the model",
    "CUT: sortedKeys (display-only Deps/RDeps slices) summarised as empty in these units; hasCycle/hasPlanCycle summarised (verified in C07/C11)",
    "power loss / fsync ordering is outside every claim",
]


def c03_units(tier):
    extra = []
    if tier == "thorough":
        extra = [Unit("crash-then-append-2", HSFS, "zzC03_CrashThenAppend_2", dict(FSFLAGS, only="C03/", loop=56), bounds="as crash-then-append with an initial log of <=2 arbitrary lines")]
    return extra + [
        Unit("crash-during-compact", HSFS, "zzC03_CrashDuringCompact", dict(FSFLAGS, only="C03/"), bounds="clean log of <=1 arbitrary event; compact killed between any two system calls; then a reader, a surviving writer, a reader"),
        Unit("crash-during-plan", HSFS, "zzC03_CrashDuringPlan", dict(FSFLAGS, only="C03/"), bounds="clean log of <=1 arbitrary event; plan (1 task) killed between any two system calls; then a reader, a surviving writer, a reader"),
        Unit("compact-stale-tmp", HSFS, "zzC03_CompactStaleTmp", dict(FSFLAGS, only="C03/"), bounds="clean log of <=1 event; a stale <log>.tmp with arbitrary (longer) content may exist; compact"),
        Unit("crash-then-append", HSFS, "zzC03_CrashThenAppend", dict(FSFLAGS, only="C03/"), bounds="initial log: one arbitrary line satisfying the world invariant (blank / event / torn tail); process A = new task killed at any effect index, write torn or not; then a reader, a surviving writer, a reader; the world invariant is re-established, so crash/write rounds of any number are covered by induction"),
    ]


reg("C03", c03_units,
    "bounded symbolic model checking of the real storage code (readEvents with its tail tolerance, appendEvents, loadGraph, withLock) over the line-object file model with the crash point as a symbolic integer: reads after a crash succeed, at most the interrupted command's events are missing, acknowledged work is present, later mutations work and keep the store readable.",
    FS_ASSUME)


def c04_units(tier):
    us = [
        Unit("claim-atomic", HSFS, "zzC04_ClaimAtomic", dict(FSFLAGS, only="C04/"), bounds="clean log of <=2 arbitrary events; claim (2 events) killed between any two system calls (no torn write: that is C03's fault model)"),
        Unit("set-atomic", HSFS, "zzC04_SetAtomic", dict(FSFLAGS, only="C04/"), bounds="clean log of <=1 arbitrary event; set title+body (2 events) on any id, killed between any two system calls"),
        Unit("prune-atomic", HSFS, "zzC04_PruneAtomic", dict(FSFLAGS, only="C04/"), bounds="clean log of <=2 arbitrary events; prune --yes (one tombstone per target) killed between any two system calls"),
    ]
    us.append(Unit("plan-atomic", HSFS, "zzC04_PlanAtomic", dict(FSFLAGS, only="C04/"), bounds="clean log of <=1 event (possibly empty); plan of 1 task through temp file + rename, killed at any effect, stale temp file possible"))
    return us


reg("C04", c04_units,
    "bounded symbolic model checking of multi-event commands on the file model: claim (claim+state), set (title+body), prune (one tombstone per target) and plan (temp file + rename) are killed between any two of their system calls and the replayed state must equal the state before or the state after the whole command.",
    FS_ASSUME)


# ---------------------------------------------------------------- C13 / C02 / C01
def c13_units(tier):
    return [Unit("reader-during-" + n.lower(), HSFS, "zzC13_During" + n, dict(FSFLAGS, only="C13/"),
                 bounds="clean log of <=2 events (<=1 for the rewriting commands); the writer has performed an arbitrary prefix of its atomic system calls when the reader (real loadGraph: getEventsPath, readEvents with its newline probe, replay) runs")
            for n in ("NewTask", "Claim", "Compact", "Plan")]


reg("C13", c13_units,
    "bounded symbolic model checking on the file model: the reader's view is the file after an arbitrary prefix of the writer's system calls (a symbolic integer), for an appending writer (1 and 2 events), compact and plan; the real reader must succeed and show the old state, the new state or - for appends - a prefix of the appended events.",
    FS_ASSUME + ["a reader's scan sees the file as of one instant (A2); a reader overlapping several writers reduces to this case because writers are serialised by the lock (C02)"])

C02_CMDS = ["NewTask", "Claim", "Compact", "Plan", "Sequence", "Prune", "Set", "SetResult"]


def c02_units(tier):
    return [Unit("lock-discipline-" + n.lower(), HSFS, "zzC02_" + n, dict(FSFLAGS, only="C02/"),
                 bounds="clean log of <=1 event; every argument symbolic; lock busy or free at every attempt; all paths of the command") for n in C02_CMDS]


reg("C02", c02_units,
    "solver-checked lock discipline of every mutating command on the real code over the system-call model: all writes/truncates/renames of the log and all reads that feed them lie inside a flock section whose flag word (evaluated from the source) is LOCK_EX|LOCK_NB; a failed attempt writes nothing. Serializability of whole commands then follows from the kernel's mutual exclusion of LOCK_EX holders (assumed, A1/A5) for single-section commands; the multi-section commands are the C10 known findings.",
    FS_ASSUME + ["two-process interleavings are not enumerated or encoded: mutual exclusion of flock(LOCK_EX) holders is the kernel's contract (assumption), the solver decides that the code stays inside that contract on every path",
                 "structural obligations (labels '/struct:') are reported from the solver's model without native staging"])


def c01_units(tier):
    f = dict(STUB)
    f["only"] = "C01/,C08/"
    return [
        Unit("claim-oldest-ready", HSCMD, "zzCmd_ClaimOldest", f, bounds=CMD_BOUNDS + "; --epic filter any id"),
        Unit("lock-discipline-claim", HSFS, "zzC02_Claim", dict(FSFLAGS, only="C02/"), bounds="claim on the file model: read, choice and both writes inside one LOCK_EX|LOCK_NB section"),
        Unit("claim-candidates-n4", ["c08.go"], "zzC08_ScopedReady_N4", {"loop": 24, "only": "C08/"}, bounds="N=4 items in any states / edges / epic membership (large enough for an epic gated by another epic that still has open work), ANY --epic value: the candidate list bare claim chooses from (real readyTasks / listTasks) holds only ready tasks in scope"),
    ]


reg("C01", c01_units,
    "bounded symbolic model checking of one claimer from an arbitrary store: the task handed out is ready by the manual's definition, the oldest such in scope, ends doing and claimed by the caller, 'no ready' only when the ready set is empty, lock busy writes nothing; plus the lock discipline of claim (load, choose and write inside one exclusive non-blocking section). At-most-one hand-out across concurrent claimers follows from mutual exclusion of the sections (kernel assumption).",
    FS_ASSUME + ["concurrent claimers are not interleaved symbolically; see C02"])


# ---------------------------------------------------------------- C12 / C17
HS12 = ["c10.go", "c11.go", "c03.go", "c12.go"]


def c12_units(tier):
    f = dict(FSFLAGS, only="C12/")
    fshow = dict(f)
    fshow["stubs"] = f["stubs"] + ",collectEpicChildren=zzNoChildrenCut"
    us = [
        Unit("located-parse-errors", HS12, "zzC12_ParseErrors", f, bounds="ANY log of <=3 lines: each blank / unparsable / an event, present or not, last one complete or not; real readEvents"),
        Unit("total-replay-and-readers", HS12, "zzC12_Total", dict(f, nopanics_off=""), bounds="ANY 2 events (any type string, ids, malformed payloads, unparsable timestamps) through replayEvents, listTasks, readyTasks, isBlocked, buildTaskListItems, selectPruneTargets, compactEvents: every nil dereference, index, nil-map write and loop bound is an obligation"),
        Unit("total-tree-line", HSCMD + ["c19.go"], "zzC19_TreeLine", dict(WIDTHFLAGS, only="C12/"), note="display-width abstraction (see C19 tree-line-layout); only the panic obligations count here",
             bounds="formatTreeLine (the row renderer of the human list) for ANY text widths and terminal width 0..400: strings.Repeat with a negative count, index and nil obligations"),
        Unit("legacy-heading-total", HS12, "zzC12_LegacyHeadingTotal", {"loop": 16, "rec": 4, "stubs": "strings.TrimSpace=zzTrimSpaceASCII,strings.TrimPrefix=zzTrimPrefixBytes,strings.IndexFunc=zzIndexFuncASCII"},
             note="byte mode; library strings.TrimSpace / TrimPrefix / IndexFunc replaced by byte-level ports (harness/c12.go); the rest of deriveTitleAndBodyFromLegacy (Split / Join) stays summarised by uninterpreted functions in the replay units",
             bounds="isLegacyHeading (run by every replay on each line of the body of an item with a blank title) on ANY line of <=4 ASCII bytes: no index / slice panic, loop bound checked, and a line not starting with '#' is not a heading"),
        Unit("epics-order-deterministic", HS12, "zzC12_EpicOrder", f, bounds="two epics with arbitrary creation times given to sortByCreatedAt in both orders"),
        Unit("pure-list", HS12, "zzC12_PureList", f, bounds="list --json with every flag combination on the file model"),
        Unit("pure-show", HS12, "zzC12_PureShow", fshow, note="CUT: collectEpicChildren (display) summarised", bounds="show --json <any id>"),
        Unit("pure-prune-dry-run", HS12, "zzC12_PurePrune", f, bounds="prune without --yes"),
    ] + [Unit("history-grows-" + n.lower(), HS12, "zzC12_History" + n, f, bounds="clean log of <=2 arbitrary events; the command succeeds or fails; every initial line must still be present with identical content") for n in ("NewTask", "Claim", "Plan", "Prune")]
    if tier == "thorough":
        us.append(Unit("located-parse-errors-5", HS12, "zzC12_ParseErrors_5", f, bounds="ANY log of <=5 lines"))
        us.append(Unit("total-replay-and-readers-3", HS12, "zzC12_Total_3", dict(f, nopanics_off="", loop=48), bounds="ANY 3 events through replay and every JSON-side reader"))
    return us


reg("C12", c12_units,
    "bounded symbolic model checking of five obligation groups: located parse errors (real readEvents on an arbitrary <=3-line file vs the rule written as a formula), totality (panic / unwinding obligations of replay and every JSON-side reader for 2 arbitrary events, thorough 3; and of the human row renderer formatTreeLine over display widths), determinism of the epics ordering (2-safety: same result for both input orders), read purity (no effect on the log), history only grows (old lines present with identical content after appends, plan and prune).",
    FS_ASSUME + ["byte-level behaviour of bufio.Scanner / encoding/json on arbitrary bytes (bit flips, 10 MiB lines, wrong field types) is represented only through the line flags {blank, parses} and the payload flag {malformed}; that those libraries terminate and do not panic is assumed",
                 "determinism is checked for the one sort whose comparator is not total by construction (sortByCreatedAt); other sorts compare ids, which are unique"])

reg("C17", lambda tier: cmd_units("C17/", ["set-json", "set-flags", "set-body-stdin", "new-task-json", "new-task-flags", "new-task-body-stdin", "new-epic-json", "new-epic-flags", "new-epic-body-stdin"]),
    "bounded symbolic model checking of the data flow of titles and bodies through every input mode of new task / new epic / set: the text is an unconstrained atom (every string), and what a following read returns must be that atom, or its TrimSpace exactly where the manual documents trimming; plan texts are covered by C11 (run-plan), survival through compact by C05.",
    ["encoding/json is assumed to round-trip every valid-UTF-8 string through Marshal/Unmarshal and through the non-HTML-escaping output encoder (contract of the package; not encoded)", "strings are opaque atoms here: the claim is about which input reaches which field unaltered, not about byte-level escaping"])


# ---------------------------------------------------------------- C20
def c20_units(tier):
    hs = HSCMD + ["c20.go"]
    hs5 = ["c06.go", "c07.go", "c14.go", "c05.go"]
    us = [
        Unit("path-rules", hs, "zzC20_PathRules", dict(STUB, only="C20/"), bounds="ANY repo dir and ANY path string as opaque atoms; filepath.Clean/IsAbs/Join and strings.HasPrefix/Contains uninterpreted; os.Stat answers missing / directory / regular file symbolically; real validateResultPath"),
        Unit("result-step", hs, "zzC20_ResultStep", dict(STUB, only="C20/"), bounds="store of 2 items with <=2 results each, 1 tombstone; ONE arbitrary event (any type, ids, malformed or not) through the real replay loop body"),
        Unit("attach", hs, "zzC20_Attach", dict(STUB, only="C20/"), bounds="store of 3 items + pruned id AAAAAA; set result.path/result.summary on ANY id with arbitrary strings; validateResultPath / captureResultEvidence succeed or fail symbolically (L1 stubs)"),
        Unit("compact", hs5, "zzC05_Compact_N2", {"loop": 40, "rec": 4, "only": "C20/"}, bounds="store of 2 items, 1 result per task, compacted by the real compactEvents and replayed"),
    ]
    fb = {"loop": 16, "rec": 3, "only": "C20/", "stubs": "path/filepath.Clean=zzCleanModel"}
    us.append(Unit("path-confined-bytes", hs, "zzC20_PathConfined_L9", fb, note="filepath.Clean replaced by zzCleanModel, a static-memory port compared natively with the library on ~960 000 strings (clean-model self test)",
                   bounds="byte mode: ANY path of <=9 bytes over the alphabet {/ . e r g o a}; os.Stat answers arbitrarily except that the project root is a directory; real validateResultPath; independent component-wise oracle on the raw text"))
    if tier == "thorough":
        us.append(Unit("compact-r2", hs5, "zzC05_Compact_N2R2", {"loop": 64, "rec": 4, "_wall": 3000, "only": "C20/"}, bounds="store of 2 items, 2 results per task"))
    return us


def c20_post(results, violations, known_hits, inconclusive, samples):
    """Native validation of the Clean model used by the byte-level unit."""
    from .runner import Replayer
    import json as _json, os as _os, tempfile as _tf
    hs = ["intrinsics.go", "world_native.go", "fs_native.go", "common.go"] + HSCMD + ["c20.go"]
    rp = Replayer(hs, ["zzC20_CleanModelSelfTest"])
    sc = _os.path.join(_tf.mkdtemp(prefix="zzscen-"), "s.json")
    _json.dump({"values": {}, "meta": {}}, open(sc, "w"))
    rr = rp.run("zzC20_CleanModelSelfTest", sc)
    rp.close()
    import shutil as _sh
    _sh.rmtree(_os.path.dirname(sc), ignore_errors=True)
    ok = rr.get("ok") and not rr.get("failed") and not rr.get("panic")
    samples.append({"clean_model_self_test": "agrees with path/filepath.Clean on every string of <=7 bytes over the alphabet" if ok else "FAILED", "raw": (rr.get("raw") or rr.get("err") or "")[-400:]})
    if not ok:
        inconclusive.append({"unit": "path-confined-bytes", "why": "clean-model self test failed: the model of filepath.Clean disagrees with the library: " + (rr.get("raw") or rr.get("err") or "")[-300:]})


reg("C20", c20_units,
    "bounded symbolic model checking of (a) the data flow of validateResultPath: every lexical rule is applied to the CLEANED path, the cleaned path is what is stat'ed below the project root and what is recorded, missing files and directories are refused (strings as atoms, Clean/IsAbs/Join/HasPrefix/Contains uninterpreted, os.Stat symbolic); (b) one arbitrary event through the real replay loop body from an arbitrary store: only a result event changes a Results list, by prepending exactly one entry (inductive step: results are never dropped, duplicated, reordered or altered by later commands); (c) attach through set only to a live task; (d) compaction preserves the lists.",
    ["NOT decided: sha256 = hash of the file content (crypto/sha256 not encodable); file_url derivation (net/url); symlinks (kernel path resolution)",
     "L1 stubs: validateResultPath / captureResultEvidence in the attach unit succeed or fail symbolically; the path-rules unit runs the real validateResultPath over an os.Stat stub",
     "byte-level unit: filepath.Clean is library code and is replaced by zzCleanModel (harness/c20.go), validated natively against the library on every string of <=7 bytes over the alphabet on each run; paths longer than 9 bytes or with other bytes are outside the claim (the rules only distinguish '/', '.', and the letters of '.ergo')"], post=c20_post)


# ---------------------------------------------------------------- C18
HS18 = HSCMD + ["c11.go", "c03.go", "c18.go"]


def c18_units(tier):
    f = dict(FSFLAGS, only="C18/", _wall=300 if tier == "quick" else 3000)
    cfgs = {"Neither": "neither log file", "Plans": "plans.jsonl only", "Legacy": "legacy events.jsonl only", "Both": "both files"}
    us = []
    for n in ("NewTask", "Claim", "Compact", "Prune", "Plan", "SetTitle", "SetResult"):
        for c, txt in cfgs.items():
            us.append(Unit("same-log-%s-%s" % (n.lower(), c.lower()), HS18, "zzC18_SameLog%s_%s" % (n, c), f,
                           bounds="store holding %s (each present file: <=1 arbitrary event), lock file present or absent, stale temp file or not; %s through the real lock/read/write path" % (txt, n)))
    fr = {"loop": 16, "rec": 3, "only": "C18/"}
    for n, txt in (("Cwd", "no --dir (working directory)"), ("AbsY", "--dir <root>/x/y"), ("AbsX", "--dir <root>/x"), ("AbsRoot", "--dir <root>"), ("AbsErgo", "--dir <root>/x/.ergo (the .ergo directory itself)"),
                   ("AbsDotDot", "--dir <root>/x/y/../y"), ("AbsParent", "--dir <root>/x/y/.."), ("AbsParentSlash", "--dir <root>/x/y/../"), ("RelParentOfY", "--dir y/.."), ("RelY", "--dir y"), ("RelDot", "--dir ."), ("RelDotDot", "--dir .."), ("RelErgo", "--dir .ergo"), ("RelYSlash", "--dir ./y/")):
        us.append(Unit("resolve-" + n.lower(), HS18, "zzC18_Resolve_" + n, fr, bounds="skeleton <root>/x/y, working directory <root>/x, each of the 3 directories holds a .ergo directory or not (8 layouts, symbolic); start spelling: " + txt))
    for n in ("RelY", "RelDotDot", "AbsY"):
        us.append(Unit("resolve-where-" + n.lower(), HS18, "zzC18_ResolveWhere_" + n, fr, bounds="same skeleton; the discovery call `where` makes (resolveErgoDir on the raw --dir value); spelling " + n))
    us.append(Unit("init-idempotent", HS18, "zzC18_InitIdempotent", f, bounds="ANY combination of plans.jsonl / events.jsonl / lock present or absent, each log holding <=2 arbitrary events; init twice"))
    return us


reg("C18", c18_units,
    "bounded symbolic model checking on the L0 file model extended with the legacy events.jsonl: for each store configuration (case split: neither / plans only / legacy only / both; lock and temp file symbolic) and each mutating command, the real getEventsPath picks the same file before and after, the other log file sees no create/write/rename, the store stays readable and the next read sees the command's effect, and a missing lock file does not make a valid command fail; init on any configuration changes no item, hides none, rewrites no existing log and is idempotent. Directory discovery: the real ergoDir/resolveErgoDir over a 3-level directory skeleton whose .ergo directories exist symbolically (os.Stat model), for 14 spellings of the start directory (absolute, relative, with .., the .ergo directory itself, none), against 'deepest enclosing .ergo of the directory the spelling names'.",
    FS_ASSUME + ["paths are atoms: <root>/.ergo and Join(dir, name) are injective uninterpreted functions; os.MkdirAll succeeds",
                 "discovery: path spellings are enumerated (14), not symbolic strings; filepath.Join/Dir/Base/Abs are computed on those literals by the Go library itself; symlinks, .ergo being a regular file, and permission errors are outside the claim",
                 "read-only commands (list/show) use the same loadGraph -> getEventsPath path as the post-command read in these units"])


# ---------------------------------------------------------------- C19
WIDTHFLAGS = {"loop": 24, "rec": 4, "stubs": "visibleLen=zzVisLenCut,stripANSICodes=zzStripCut,truncateToWidth=zzTruncCut"}


def c19_units(tier):
    hs = HSCMD + ["c19.go"]
    f = {"loop": 24, "rec": 4, "only": "C19/", "stubs": "hasCycle=zzHasCycleSpec,topoSortTasks=zzTopoIdentityCut"}
    b = "store of 3 items (any kinds, states, claims, epic membership obeying I1-I5, acyclic edges)"
    return [
        Unit("rows-all", hs, "zzC19_RowsAll_N3", f, note="CUT: topoSortTasks (sibling order) summarised as identity", bounds=b + "; list --all"),
        Unit("rows-default", hs, "zzC19_RowsDefault_N3", f, note="CUT: topoSortTasks summarised", bounds=b + "; list (default view)"),
        Unit("rows-ready", hs, "zzC19_RowsReady_N3", f, note="CUT: topoSortTasks summarised", bounds=b + "; list --ready"),
        Unit("summary", hs, "zzC19_Summary_N3", f, bounds=b + "; the three scopes the summary line is computed over"),
        Unit("abbreviate-utf8", hs, "zzC19_AbbreviateUTF8", {"loop": 16, "rec": 4, "only": "C19/"}, bounds="byte mode: ANY valid UTF-8 text of <=6 bytes, cut length 2..5 (the call site uses 20; the cut arithmetic does not depend on the constant); validity = RFC 3629 state machine and the library's utf8.ValidString, both executed"),
        Unit("tree-line-layout", hs, "zzC19_TreeLine", WIDTHFLAGS, note="strings abstracted to display widths; CUT: truncateToWidth replaced by its contract (result at most w columns, empty for w<=0); visibleLen/stripANSICodes summarised",
             bounds="formatTreeLine for ANY widths of prefix, connector, icon, id, title, blocker text (0..1000 columns each), task or epic, colour on/off, terminal width 0..400, no extra annotations"),
    ]


reg("C19", c19_units,
    "bounded symbolic model checking of the STRUCTURE of the human list: the node tree the renderer is given (real buildListRoots / buildTree / filterAndCollapseNodes / filterNodesByReady / derivedEpicState) holds every live item exactly once with --all, every active task exactly once by default, exactly the ready tasks with --ready, children under their own epic, two levels; the numbers behind the summary line (real computeStatsForTasks over the real scope filters) equal the tasks per bucket. One node = one row. Row layout: formatTreeLine over a display-width abstraction (no panic; the id ends exactly in its right-hand column whenever the fixed part of the row leaves room). Byte level: abbreviate keeps valid UTF-8 (RFC 3629 state machine and utf8.ValidString executed on <=6 symbolic bytes).",
    ["NOT decided (byte level): that a row fits the terminal width, ends with the id in a fixed column, and is valid UTF-8 for every title / claimant / blocker text (formatTreeLine, truncateToWidth, abbreviate work on bytes and runes; the engine's byte mode did not reach them: see DESIGN); the empty-view sentences; the --epic focused view",
     "CUT: topoSortTasks replaced by the identity (order of siblings is not claimed). ASSUMED, not verified: the real function returns a permutation of its input (Kahn's algorithm over a symbolic work list did not finish even for 2 items); a change that makes it drop items (seed C19f) is not detected",
     "store invariants I1-I5 assumed (established by C06/C07/C14 steps)"])
