"""Registry: property id -> harness units per tier."""
from .runner import Unit

COMMON_ASSUMPTIONS = [
    "go/ssa (x/tools v0.50.0) faithfully represents the Go source; the gosmt executor implements the SSA semantics for the instruction subset it accepts and aborts (inconclusive) on anything else",
    "strings are compared as opaque atoms (Int codes, order-preserving for program literals); string functions on atoms (TrimSpace, concatenation, Sprintf, ...) are uninterpreted functions with the axioms of DESIGN 3.1",
    "map iteration visits the slots of a symbolic collection in index order (slots are symmetric); entries inserted during a run are visited last",
    "append re-uses the backing array iff len+n <= cap; a reallocation gets the engine's physical capacity (programs must not depend on growth policy)",
]

PROPS = {}


def reg(pid, units, level_text, assumptions, post=None):
    PROPS[pid] = {"units": units, "level_text": level_text, "assumptions": COMMON_ASSUMPTIONS + assumptions, "post": post}


# ---------------------------------------------------------------- C08
def c08_units(tier):
    n = "3" if tier == "quick" else "4"
    return [
        Unit("ready-blocked-vs-spec", ["c08.go"], "zzC08_ReadyBlocked_N" + n, {"loop": 20}, bounds="N=%s items, any states/claims/edges/epic membership, no invariant beyond Tasks[k].ID=k" % n),
    ]


reg("C08", c08_units,
    "bounded symbolic model checking of ergo's own SSA: isReady/isBlocked/readyTasks/list and claim selection are executed symbolically over an N-slot symbolic graph and compared with the manual's sentences written as formulas; unsat = holds for every graph within the bound",
    ["graph slots: N items (quick 3, thorough 4); beyond that outside the claim"])


# ---------------------------------------------------------------- C06
def c06_units(tier):
    return [
        Unit("transition-table", ["c06.go"], "zzC06_Table", {}, bounds="all (from,to) state atoms; any claimant"),
        Unit("set-step", ["c06.go"], "zzC06_SetStep", {"loop": 12}, bounds="store of 2 items; one task in any (state,claimant) obeying the claim rule; every subset of {title,body,epic,claim,state} with arbitrary values; agent present or not"),
    ]


reg("C06", c06_units,
    "bounded symbolic model checking: one `set`/`claim`/`new` step decided by the real buildSetEvents (and callers) from an arbitrary store satisfying the claim rule, applied by the real replay loop; post-state checked against an independent copy of the documented transition table and the claim rule. One inductive step covers command sequences of any length.",
    ["pre-state invariant I3 (six states + claim rule) is what the step itself re-establishes", "json.Marshal/Unmarshal modelled as key->atom boxes keyed by the struct tags read from the current source"])
