#!/bin/sh
# C03 known finding (and the repaired C04 one), shown on the real binary by cutting the log exactly where a killed
# process would have left it (earlier write(2)s are in the file, later ones never happen).
T=$(mktemp -d); trap 'rm -rf "$T"' EXIT
(cd /repo && GOFLAGS=-mod=mod GOPROXY=off go build -o "$T/ergo" ./cmd/ergo) || exit 2
E="$T/ergo"; R=0
ws() { rm -rf "$T/ws"; mkdir "$T/ws"; cd "$T/ws"; "$E" init -q . >/dev/null 2>&1; }

ws  # C03: a write torn in the middle of a line, then any later append
A=$(echo '{"title":"a"}' | "$E" new task)
printf '{"type":"new_task","ts":"2026-01-01T00:00:00Z","data":{"id":"ZZZZZ' >> .ergo/plans.jsonl   # killed mid-write
"$E" --json list </dev/null >/dev/null 2>&1 && echo "read after the crash: ok (torn tail tolerated)"
echo '{"title":"b"}' | "$E" new task >/dev/null 2>&1; echo "later new task: exit=$?"
if ! "$E" --json list </dev/null >/dev/null 2>"$T/err"; then echo "REPRODUCED C03: store unreadable after a later mutation: $(head -c 120 "$T/err")"; R=1; fi

# C04 (one write(2) per event) was repaired in /repo (749f4e5): strace shows one write for claim
ws
A=$(echo '{"title":"a"}' | "$E" new task)
if command -v strace >/dev/null 2>&1; then
  N=$(strace -f -s 300 -e trace=write -o "$T/tr" "$E" --agent x claim </dev/null >/dev/null 2>&1; grep -c 'type.*claim' "$T/tr")
  echo "claim: write(2) calls carrying event lines: $N (1 = the whole command in one call)"
fi
exit $R
