#!/bin/sh
# C03 / C04 known findings, shown on the real binary by cutting the log exactly where a killed
# process would have left it (earlier write(2)s are in the file, later ones never happen).
T=$(mktemp -d); trap 'rm -rf "$T"' EXIT
(cd /repo && GOFLAGS=-mod=mod GOPROXY=off go build -o "$T/ergo" ./cmd/ergo) || exit 2
E="$T/ergo"; R=0
ws() { rm -rf "$T/ws"; mkdir "$T/ws"; cd "$T/ws"; "$E" init -q . >/dev/null 2>&1; }

ws  # C03: a write torn in the middle of a line, then any later append
A=$(echo '{"title":"a"}' | "$E" new task)
printf '{"type":"new_task","ts":"2026-01-01T00:00:00Z","data":{"id":"ZZZZZ' >> .ergo/plans.jsonl   # killed mid-write
"$E" --json list </dev/null >/dev/null 2>&1 && echo "read after the crash: ok (torn tail tolerated)"
echo '{"title":"b"}' | "$E" new task >/dev/null 2>&1; echo "later new task: exit=$?"
if ! "$E" --json list </dev/null >/dev/null 2>"$T/err"; then echo "REPRODUCED C03: store unreadable after a later mutation: $(head -c 120 "$T/err")"; R=1; fi

ws  # C04: claim = two write(2)s (claim, state); killed between them
A=$(echo '{"title":"a"}' | "$E" new task)
cp .ergo/plans.jsonl "$T/before"
"$E" --agent x claim </dev/null >/dev/null
head -n $(( $(wc -l < "$T/before") + 1 )) .ergo/plans.jsonl > "$T/cut" && cp "$T/cut" .ergo/plans.jsonl   # only the first of the two lines landed
S=$("$E" --json show $A </dev/null)
echo "$S" | grep -q '"state":"todo"' && echo "$S" | grep -q '"claimed_by":"x"' && { echo "REPRODUCED C04: task is todo but claimed by x (never ready again)"; R=1; }
"$E" --agent y claim </dev/null
exit $R
