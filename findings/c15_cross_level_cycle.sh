#!/bin/sh
# C15 known finding: a waits-for cycle through epic-level and task-level edges is accepted;
# all work is todo, nothing is held, yet nothing is ever ready. Exits 1 when reproduced.
set -e
T=$(mktemp -d); trap 'rm -rf "$T"' EXIT
(cd /repo && GOFLAGS=-mod=mod GOPROXY=off go build -o "$T/ergo" ./cmd/ergo)
cd "$T" && mkdir ws && cd ws && "$T/ergo" init -q . >/dev/null 2>&1
E1=$(echo '{"title":"E1"}' | "$T/ergo" new epic); E2=$(echo '{"title":"E2"}' | "$T/ergo" new epic)
T1=$(echo "{\"title\":\"T1\",\"epic\":\"$E1\"}" | "$T/ergo" new task); T2=$(echo "{\"title\":\"T2\",\"epic\":\"$E2\"}" | "$T/ergo" new task)
"$T/ergo" sequence "$T2" "$T1" </dev/null   # T1 depends on T2
"$T/ergo" sequence "$E1" "$E2" </dev/null   # E2 depends on E1 (so T2 waits for every task of E1, i.e. T1)
OUT=$("$T/ergo" --agent a claim </dev/null)
echo "claim says: $OUT"
"$T/ergo" --json list </dev/null
case "$OUT" in *"No ready"*) echo "REPRODUCED: both tasks todo, nothing held, nothing ready"; exit 1;; esac
exit 0
