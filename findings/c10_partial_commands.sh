#!/bin/sh
# C10 known findings: three commands commit part of their work and then fail.
# Prints REPRODUCED lines; exits 1 if any reproduced.
T=$(mktemp -d); trap 'rm -rf "$T"' EXIT
(cd /repo && GOFLAGS=-mod=mod GOPROXY=off go build -o "$T/ergo" ./cmd/ergo) || exit 2
E="$T/ergo"; R=0
ws() { rm -rf "$T/ws"; mkdir "$T/ws"; cd "$T/ws"; "$E" init -q . >/dev/null 2>&1; }
count() { "$E" --json list --all </dev/null | tr ',' '\n' | grep -c '"id"'; }

ws  # 1. new task with an invalid follow-up state: exits non-zero, task exists anyway
echo '{"title":"x","state":"doing"}' | "$E" new task >/dev/null 2>&1; rc=$?
n=$(count); echo "new task state=doing without agent: exit=$rc tasks=$n"
[ $rc -ne 0 ] && [ "$n" -ge 1 ] && { echo "REPRODUCED C10/new-task[create then update]"; R=1; }

ws  # 2. set with result + illegal transition: result is attached although the command fails
ID=$(echo '{"title":"t"}' | "$E" new task); echo '{"state":"done"}' | "$E" set $ID >/dev/null; echo hi > r.txt
echo '{"state":"doing","result_path":"r.txt","result_summary":"s"}' | "$E" --agent a set $ID >/dev/null 2>&1; rc=$?
res=$("$E" --json show $ID </dev/null | grep -c '"results"')
echo "set result+illegal state: exit=$rc results_present=$res"
[ $rc -ne 0 ] && [ "$res" -ge 1 ] && { echo "REPRODUCED C10/set[result + other fields]"; R=1; }

ws  # 3. sequence A B C where the second edge is rejected: first edge stays
A=$(echo '{"title":"a"}' | "$E" new task); B=$(echo '{"title":"b"}' | "$E" new task)
"$E" sequence $A $B NOSUCH </dev/null >/dev/null 2>&1; rc=$?
deps=$("$E" --json show $B </dev/null | grep -c "\"deps\":\[\"$A\"\]")
echo "sequence A B NOSUCH: exit=$rc edge_A_B_present=$deps"
[ $rc -ne 0 ] && [ "$deps" -ge 1 ] && { echo "REPRODUCED C10/sequence[several edges]"; R=1; }
exit $R
